import TsV.Lemmas.C10_Lex
import TsV.Lemmas.Outcome
import TsV.Model.Lang.TypeScript
import TsV.Lemmas.C15
/-!
# C10 — TypeScript: every declaration the model renders is lexically well-formed
-/
namespace TsV.C10TypeScript
open TsV TsV.Lang TsV.C10Lex TsV.Lang.TypeScript

/-- TypeScript's lexer: `<`/`>` are brackets in declarations, no raw strings; block comments do not
nest (exact for TypeScript) -/
def T : LexCfg := ⟨true, false⟩

/-- every type mapping maps to a balanced string -/
def CfgOk (cfg : Cfg) : Prop := ∀ p ∈ cfg.typeMappings, wellBracketed T p.2 = true

theorem CfgOk.mapped {cfg : Cfg} (H : CfgOk cfg) {k v : Str} (h : mapGet cfg.typeMappings k = some v) : NB T v := by
  obtain ⟨p, hp, rfl⟩ := mapGet_mem h
  exact nb_of_wb (H p hp)

/-! ## types -/

theorem special_ok {cfg : Cfg} (H : CfgOk cfg) (gens : List Str) (t : RustType) (st : CustomMap)
    (k : CustomMap → Outcome (Str × CustomMap)) (s : Str) (st' : CustomMap)
    (h : special cfg gens t st k = .ok (s, st')) : NB T s ∨ ∃ st1, k st1 = .ok (s, st') := by
  unfold special at h
  split at h
  · rename_i m hm; cases h; exact .inl (H.mapped hm)
  · exact .inr ⟨st, h⟩

theorem bind_pair_ok {α β} {x : Outcome (α × β)} {f : α × β → Outcome (Str × CustomMap)} {r}
    (h : x.bind f = .ok r) : ∃ a b, x = .ok (a, b) ∧ f (a, b) = .ok r := by
  cases x with
  | ok p => exact ⟨p.1, p.2, rfl, h⟩
  | err e => cases h
  | panic s => cases h

theorem bind_pair_ok' {α β γ} {x : Outcome (α × β)} {f : α × β → Outcome γ} {r}
    (h : x.bind f = .ok r) : ∃ a b, x = .ok (a, b) ∧ f (a, b) = .ok r := by
  cases x with
  | ok p => exact ⟨p.1, p.2, rfl, h⟩
  | err e => cases h
  | panic s => cases h

mutual
  theorem formatType_nb {cfg : Cfg} (H : CfgOk cfg) (gens : List Str) :
      ∀ (t : RustType) (st : CustomMap) (s : Str) (st' : CustomMap), TypeOk t →
        formatType cfg gens t st = .ok (s, st') → NB T s
    | .simple id, st, s, st', ht, h => by
      simp only [formatType] at h; cases h
      cases hm : mapGet cfg.typeMappings id with
      | some m => simpa [hm] using H.mapped hm
      | none => simpa [hm] using (KeyStr.nb (ht id (by simp [typeNames])))
    | .generic id ps, st, s, st', ht, h => by
      simp only [formatType] at h
      split at h
      · rename_i m hm; cases h; exact H.mapped hm
      · rename_i hnone
        split at h
        · rename_i strs st1 hs
          cases h
          have hps : TypesOk ps := fun n hn => ht n (by simp [typeNames, hn])
          have hall := formatTypes_nb H gens ps st strs _ hps hs
          refine NB.append ?_ ?_
          · simpa [hnone] using (KeyStr.nb (ht id (by simp [typeNames])))
          · split
            · exact NB.nil
            · exact NB.angleList strs hall
        · cases h
        · cases h
    | .vec r, st, s, st', ht, h => by
      simp only [formatType] at h
      rcases special_ok H gens _ st _ s st' h with hn | ⟨st1, hk⟩
      · exact hn
      · obtain ⟨a, b, ha, hf⟩ := bind_pair_ok hk
        cases hf
        refine NB.append (formatType_nb H gens r st1 a _ (by simpa [TypeOk, typeNames] using ht) ha) ?_
        nb_lit
    | .slice r, st, s, st', ht, h => by
      simp only [formatType] at h
      rcases special_ok H gens _ st _ s st' h with hn | ⟨st1, hk⟩
      · exact hn
      · obtain ⟨a, b, ha, hf⟩ := bind_pair_ok hk
        cases hf
        refine NB.append (formatType_nb H gens r st1 a _ (by simpa [TypeOk, typeNames] using ht) ha) ?_
        nb_lit
    | .array r n, st, s, st', ht, h => by
      simp only [formatType] at h
      rcases special_ok H gens _ st _ s st' h with hn | ⟨st1, hk⟩
      · exact hn
      · obtain ⟨a, b, ha, hf⟩ := bind_pair_ok hk
        cases hf
        have hr := formatType_nb H gens r st1 a _ (by simpa [TypeOk, typeNames] using ht) ha
        refine NB.square (NB.intercalate _ nb_commaSep _ ?_)
        intro x hx
        rw [List.eq_of_mem_replicate hx]; exact hr
    | .option r, st, s, st', ht, h => by
      simp only [formatType] at h
      rcases special_ok H gens _ st _ s st' h with hn | ⟨st1, hk⟩
      · exact hn
      · exact formatType_nb H gens r st1 s st' (by simpa [TypeOk, typeNames] using ht) hk
    | .hashMap k v, st, s, st', ht, h => by
      simp only [formatType] at h
      rcases special_ok H gens _ st _ s st' h with hn | ⟨st1, hk⟩
      · exact hn
      · have core : ∀ st1, ((formatType cfg gens k st1).bind fun (ks, st) =>
            (formatType cfg gens v st).bind fun (vs, st) =>
              Outcome.ok (s%"Record<" ++ ks ++ s%", " ++ vs ++ s%">", st)) = .ok (s, st') → NB T s := by
          intro st1 hc
          obtain ⟨ks, st2, hks, hc⟩ := bind_pair_ok hc
          obtain ⟨vs, st3, hvs, hc⟩ := bind_pair_ok hc
          cases hc
          have hkn := formatType_nb H gens k st1 ks st2 (fun n hn => ht n (by simp [typeNames, hn])) hks
          have hvn := formatType_nb H gens v st2 vs _ (fun n hn => ht n (by simp [typeNames, hn])) hvs
          intro stk
          have r1 : Run T s%"Record<" ⟨.code, stk⟩ ⟨.code, '<' :: stk⟩ := rfl
          have r3 : Run T s%", " ⟨.code, '<' :: stk⟩ ⟨.code, '<' :: stk⟩ := rfl
          have r5 : Run T s%">" ⟨.code, '<' :: stk⟩ ⟨.code, stk⟩ := rfl
          exact (((r1.append (hkn _)).append r3).append (hvn _)).append r5
        split at hk
        · split at hk
          · cases hk
          · exact core st1 hk
        · exact core st1 hk
    | .prim p, st, s, st', _, h => by
      simp only [formatType] at h
      rcases special_ok H gens _ st _ s st' h with hn | ⟨st1, hk⟩
      · exact hn
      · cases p <;> simp only at hk <;> first | (cases hk; nb_lit) | cases hk
  theorem formatTypes_nb {cfg : Cfg} (H : CfgOk cfg) (gens : List Str) :
      ∀ (ts : List RustType) (st : CustomMap) (ss : List Str) (st' : CustomMap), TypesOk ts →
        formatTypes cfg gens ts st = .ok (ss, st') → ∀ s ∈ ss, NB T s
    | [], st, ss, st', _, h => by
      simp only [formatTypes] at h; cases h; simp
    | t :: ts, st, ss, st', ht, h => by
      simp only [formatTypes] at h
      obtain ⟨a, st1, ha, h⟩ := bind_pair_ok' h
      obtain ⟨as, st2, has, h⟩ := bind_pair_ok' h
      cases h
      intro s hs
      simp only [List.mem_cons] at hs
      rcases hs with rfl | hs
      · exact formatType_nb H gens t st _ st1 (fun n hn => ht n (by simp [typeNamesList, hn])) ha
      · exact formatTypes_nb H gens ts st1 as st2 (fun n hn => ht n (by simp [typeNamesList, hn])) has s hs
end


/-! ## comments: `/** … */` -/

/-- doc text may contain anything but the comment terminator (C15's `Bad` class for TypeScript) -/
def DocsOk (cs : List Str) : Prop := ∀ c ∈ cs, Str.containsSub c s%"*/" = false

instance (cs : List Str) : Decidable (DocsOk cs) := by unfold DocsOk; infer_instance

/-- inside a block comment, possibly right after a `*` -/
def InBlock (st : St) (stk : List Char) : Prop := st = ⟨.block, stk⟩ ∨ st = ⟨.blockStar, stk⟩

theorem tabs_block (n : Nat) (stk : List Char) : Run T (tabs n) ⟨.block, stk⟩ ⟨.block, stk⟩ := by
  induction n with
  | zero => rfl
  | succ k ih =>
    have : tabs (k + 1) = s%"\t" ++ tabs k := by simp [tabs, List.replicate_succ]
    rw [this]
    exact Run.append (b := ⟨.block, stk⟩) rfl ih

/-- the separator between two doc lines brings the lexer back to the plain in-comment state -/
theorem sep_block (n : Nat) (stk : List Char) (a : St) (ha : InBlock a stk) :
    Run T (nl ++ tabs n ++ s%" * ") a ⟨.block, stk⟩ := by
  have r1 : Run T nl a ⟨.block, stk⟩ := by rcases ha with rfl | rfl <;> rfl
  have r3 : Run T s%" * " ⟨.block, stk⟩ ⟨.block, stk⟩ := rfl
  exact (r1.append (tabs_block n stk)).append r3

theorem doc_block (c : Str) (h : Str.containsSub c s%"*/" = false) (stk : List Char) :
    ∃ b, InBlock b stk ∧ Run T c ⟨.block, stk⟩ b := by
  rcases (block_body (cfg := T) c stk h).1 with hb | hb
  · exact ⟨_, .inl rfl, hb⟩
  · exact ⟨_, .inr rfl, hb⟩

theorem docs_block (n : Nat) (stk : List Char) : ∀ (cs : List Str), DocsOk cs →
    ∃ b, InBlock b stk ∧ Run T (Str.intercalate (nl ++ tabs n ++ s%" * ") cs) ⟨.block, stk⟩ b
  | [], _ => ⟨_, .inl rfl, rfl⟩
  | [c], h => doc_block c (h c (by simp)) stk
  | c :: d :: r, h => by
    obtain ⟨b1, hb1, r1⟩ := doc_block c (h c (by simp)) stk
    obtain ⟨b2, hb2, r2⟩ := docs_block n stk (d :: r) (fun x hx => h x (by simp [hx]))
    exact ⟨b2, hb2, (r1.append (sep_block n stk b1 hb1)).append r2⟩

/-- `write_comments` escapes `*/` (C15 repair), so the written entries never contain the terminator -/
theorem escaped_docsOk (cs : List Str) : DocsOk (cs.map escapeDoc) := by
  intro c hc
  obtain ⟨d, _, rfl⟩ := List.mem_map.mp hc
  exact C15.ts_escape_no_close d

/-- the comment block is closed for *every* doc text (the hypothesis is kept for the callers' scope
structures; it is no longer needed since `*/` is escaped) -/
theorem comments_nb (n : Nat) (cs : List Str) (_h : DocsOk cs) : NB T (comments n cs) := by
  unfold comments
  split
  · exact NB.nil
  · rename_i c
    intro stk
    have r1 := NB.tabs (cfg := T) n stk
    have r2 : Run T s%"/** " ⟨.code, stk⟩ ⟨.block, stk⟩ := rfl
    obtain ⟨b, hb, r3⟩ := doc_block (escapeDoc c) (C15.ts_escape_no_close c) stk
    have r4 : Run T s%" */" b ⟨.code, stk⟩ := by rcases hb with rfl | rfl <;> rfl
    have r5 : Run T nl ⟨.code, stk⟩ ⟨.code, stk⟩ := rfl
    exact (((r1.append r2).append r3).append r4).append r5
  · intro stk
    have r1 := NB.tabs (cfg := T) n stk
    have r2 : Run T s%"/**\n" ⟨.code, stk⟩ ⟨.block, stk⟩ := rfl
    have r3 := tabs_block n stk
    have r4 : Run T s%" * " ⟨.block, stk⟩ ⟨.block, stk⟩ := rfl
    obtain ⟨b, hb, r5⟩ := docs_block n stk (cs.map escapeDoc) (escaped_docsOk cs)
    have r6 : Run T nl b ⟨.block, stk⟩ := by rcases hb with rfl | rfl <;> rfl
    have r8 : Run T s%" */" ⟨.block, stk⟩ ⟨.code, stk⟩ := rfl
    have r9 : Run T nl ⟨.code, stk⟩ ⟨.code, stk⟩ := rfl
    exact (((((((r1.append r2).append r3).append r4).append r5).append r6).append r3).append r8).append r9

/-! ## property signatures -/

abbrev FieldOk := FieldScope Lang.typescript T DocsOk
abbrev StructOk := StructScope Lang.typescript T DocsOk
abbrev AliasOk := AliasScope DocsOk
abbrev VariantOk := VariantScope Lang.typescript T DocsOk
abbrev EnumOk := EnumScope Lang.typescript T DocsOk
abbrev ItemOk := ItemScope Lang.typescript T DocsOk

theorem propertyName_nb {name : Str} (h : KeyStr name) : NB T (propertyName name) := by
  unfold propertyName
  split
  · exact NB.debugStr name
  · exact KeyStr.nb h

structure TsFieldOk (f : TsField) : Prop where
  docs : DocsOk f.comments
  name : NB T f.name
  ty : NB T f.ty

theorem renderField_nb (f : TsField) (h : TsFieldOk f) : NB T (renderField f) := by
  unfold renderField
  nb_pieces
  · exact comments_nb 1 _ h.docs
  · nb_lit
  · split <;> first | nb_lit | exact NB.nil
  · exact h.name
  · split <;> first | nb_lit | exact NB.nil
  · nb_lit
  · exact h.ty
  · split <;> first | nb_lit | exact NB.nil
  · nb_lit

theorem fieldFacts_ok {cfg : Cfg} (H : CfgOk cfg) (gens : List Str) (f : RustField) (st : CustomMap)
    (tf : TsField) (st' : CustomMap) (hf : FieldOk f) (h : fieldFacts cfg gens f st = .ok (tf, st')) :
    TsFieldOk tf := by
  unfold fieldFacts at h
  obtain ⟨ty, st1, hty, h⟩ := bind_pair_ok' h
  cases h
  refine ⟨hf.docs, propertyName_nb hf.key, ?_⟩
  split at hty
  · rename_i t ht; cases hty; exact nb_of_wb (hf.override _ ht)
  · exact formatType_nb H gens f.ty st ty st1 hf.ty hty

theorem writeFields_nb {cfg : Cfg} (H : CfgOk cfg) (gens : List Str) : ∀ (fs : List RustField) (st : CustomMap)
    (text : Str) (st' : CustomMap), (∀ f ∈ fs, FieldOk f) → writeFields cfg gens fs st = .ok (text, st') → NB T text
  | [], st, text, st', _, h => by simp only [writeFields] at h; cases h; exact NB.nil
  | f :: fs, st, text, st', hf, h => by
    simp only [writeFields] at h
    obtain ⟨tf, st1, htf, h⟩ := bind_pair_ok' h
    obtain ⟨rest, st2, hrest, h⟩ := bind_pair_ok' h
    cases h
    exact (renderField_nb tf (fieldFacts_ok H gens f st tf st1 (hf f (by simp)) htf)).append
      (writeFields_nb H gens fs st1 rest _ (fun g hg => hf g (by simp [hg])) hrest)

theorem generics_nb {gs : List Str} (h : ∀ g ∈ gs, IdentStr g) : NB T (genericSuffix gs) :=
  NB.genericSuffix gs fun g hg => IdentStr.nb (h g hg)

/-! ## declarations -/

theorem writeStruct_nb {cfg : Cfg} (H : CfgOk cfg) (rs : RustStruct) (st : CustomMap) (text : Str) (st' : CustomMap)
    (hs : StructOk rs) (h : writeStruct cfg rs st = .ok (text, st')) : NB T text := by
  unfold writeStruct at h
  obtain ⟨body, st1, hbody, h⟩ := bind_pair_ok' h
  cases h
  intro stk
  have r1 := comments_nb 0 _ hs.docs stk
  have r2 : Run T s%"export interface " ⟨.code, stk⟩ ⟨.code, stk⟩ := rfl
  have r3 := KeyStr.nb (cfg := T) hs.name stk
  have r4 := generics_nb hs.generics stk
  have r5 : Run T s%" {\n" ⟨.code, stk⟩ ⟨.code, '{' :: stk⟩ := rfl
  have r6 := writeFields_nb H rs.genericTypes rs.fields st body _ hs.fields hbody ('{' :: stk)
  have r7 : Run T s%"}\n\n" ⟨.code, '{' :: stk⟩ ⟨.code, stk⟩ := rfl
  exact (((((r1.append r2).append r3).append r4).append r5).append r6).append r7

theorem writeAlias_nb {cfg : Cfg} (H : CfgOk cfg) (a : RustTypeAlias) (st : CustomMap) (text : Str) (st' : CustomMap)
    (ha : AliasOk a) (h : writeAlias cfg a st = .ok (text, st')) : NB T text := by
  unfold writeAlias at h
  obtain ⟨ty, st1, hty, h⟩ := bind_pair_ok' h
  cases h
  nb_pieces
  · exact comments_nb 0 _ ha.docs
  · nb_lit
  · exact KeyStr.nb ha.renamed
  · exact generics_nb ha.generics
  · nb_lit
  · exact formatType_nb H a.genericTypes a.ty st ty _ ha.ty hty
  · split <;> first | nb_lit | exact NB.nil
  · nb_lit

/-- a constant: its name is computed with the Unicode parameter, so that it is an identifier is a
hypothesis -/
theorem writeConst_nb (U : UnicodeOps) {cfg : Cfg} (H : CfgOk cfg) (c : RustConst) (st : CustomMap) (text : Str)
    (st' : CustomMap) (hty : TypeOk c.ty) (hname : KeyStr (U.upperStr (Rename.toSnake U c.id.renamed)))
    (h : writeConst U cfg c st = .ok (text, st')) : NB T text := by
  unfold writeConst at h
  obtain ⟨ty, st1, hty', h⟩ := bind_pair_ok' h
  cases h
  nb_pieces
  · nb_lit
  · exact KeyStr.nb hname
  · nb_lit
  · exact formatType_nb H [] c.ty st ty _ hty hty'
  · nb_lit
  · exact Plain.nb (natToStr_plain T c.expr)
  · nb_lit

theorem writeVariant_nb {cfg : Cfg} (H : CfgOk cfg) (e : RustEnum) (tag content : Str) (htag : IdentStr tag)
    (hcontent : KeyStr content) (v : RustEnumVariant) (st : CustomMap) (text : Str) (st' : CustomMap)
    (hv : VariantOk v) (h : writeVariant cfg e tag content v st = .ok (text, st')) : NB T text := by
  have hhead : NB T (nl ++ comments 1 v.comments) := NB.nl.append (comments_nb 1 _ hv.docs)
  unfold writeVariant at h
  cases v with
  | unit id cs =>
    simp only at h; cases h
    intro stk
    have r0 := hhead stk
    have r1 : Run T s%"\t| { " ⟨.code, stk⟩ ⟨.code, '{' :: stk⟩ := rfl
    have r2 := IdentStr.nb (cfg := T) htag ('{' :: stk)
    have r3 : Run T s%": " ⟨.code, '{' :: stk⟩ ⟨.code, '{' :: stk⟩ := rfl
    have r4 := NB.debugStr (cfg := T) id.renamed ('{' :: stk)
    have r5 : Run T s%", " ⟨.code, '{' :: stk⟩ ⟨.code, '{' :: stk⟩ := rfl
    have r6 := KeyStr.nb (cfg := T) hcontent ('{' :: stk)
    have r7 : Run T s%"?: undefined }" ⟨.code, '{' :: stk⟩ ⟨.code, stk⟩ := rfl
    exact ((((((r0.append r1).append r2).append r3).append r4).append r5).append r6).append r7
  | tuple id cs ty =>
    simp only at h
    obtain ⟨t, st1, ht, h⟩ := bind_pair_ok' h
    cases h
    intro stk
    have r0 := hhead stk
    have r1 : Run T s%"\t| { " ⟨.code, stk⟩ ⟨.code, '{' :: stk⟩ := rfl
    have r2 := IdentStr.nb (cfg := T) htag ('{' :: stk)
    have r3 : Run T s%": " ⟨.code, '{' :: stk⟩ ⟨.code, '{' :: stk⟩ := rfl
    have r4 := NB.debugStr (cfg := T) id.renamed ('{' :: stk)
    have r5 : Run T s%", " ⟨.code, '{' :: stk⟩ ⟨.code, '{' :: stk⟩ := rfl
    have r6 := KeyStr.nb (cfg := T) hcontent ('{' :: stk)
    have r7 : Run T (if ty.isOptional = true then s%"?" else []) ⟨.code, '{' :: stk⟩ ⟨.code, '{' :: stk⟩ := by
      split <;> rfl
    have r9 := formatType_nb H e.genericTypes ty st t _ hv.2.2.2 ht ('{' :: stk)
    have r10 : Run T s%" }" ⟨.code, '{' :: stk⟩ ⟨.code, stk⟩ := rfl
    exact (((((((((r0.append r1).append r2).append r3).append r4).append r5).append r6).append r7).append r3).append r9).append r10
  | anonymousStruct id cs fs =>
    simp only at h
    obtain ⟨body, st1, hb, h⟩ := bind_pair_ok' h
    cases h
    intro stk
    have r0 := hhead stk
    have r1 : Run T s%"\t| { " ⟨.code, stk⟩ ⟨.code, '{' :: stk⟩ := rfl
    have r2 := IdentStr.nb (cfg := T) htag ('{' :: stk)
    have r3 : Run T s%": " ⟨.code, '{' :: stk⟩ ⟨.code, '{' :: stk⟩ := rfl
    have r4 := NB.debugStr (cfg := T) id.renamed ('{' :: stk)
    have r5 : Run T s%", " ⟨.code, '{' :: stk⟩ ⟨.code, '{' :: stk⟩ := rfl
    have r6 := KeyStr.nb (cfg := T) hcontent ('{' :: stk)
    have r7 : Run T s%": {\n" ⟨.code, '{' :: stk⟩ ⟨.code, '{' :: '{' :: stk⟩ := rfl
    have r8 := writeFields_nb H e.genericTypes fs st body _ hv.2.2.2 hb ('{' :: '{' :: stk)
    have r9 : Run T s%"}}" ⟨.code, '{' :: '{' :: stk⟩ ⟨.code, stk⟩ := rfl
    exact ((((((((r0.append r1).append r2).append r3).append r4).append r5).append r6).append r7).append r8).append r9

theorem writeVariants_nb {cfg : Cfg} (H : CfgOk cfg) (e : RustEnum) (tag content : Str) (htag : IdentStr tag)
    (hcontent : KeyStr content) : ∀ (vs : List RustEnumVariant) (st : CustomMap) (text : Str) (st' : CustomMap),
    (∀ v ∈ vs, VariantOk v) → writeVariants cfg e tag content vs st = .ok (text, st') → NB T text
  | [], st, text, st', _, h => by simp only [writeVariants] at h; cases h; exact NB.nil
  | v :: vs, st, text, st', hv, h => by
    simp only [writeVariants] at h
    obtain ⟨a, st1, ha, h⟩ := bind_pair_ok' h
    obtain ⟨b, st2, hb, h⟩ := bind_pair_ok' h
    cases h
    exact (writeVariant_nb H e tag content htag hcontent v st a st1 (hv v (by simp)) ha).append
      (writeVariants_nb H e tag content htag hcontent vs st1 b _ (fun w hw => hv w (by simp [hw])) hb)

theorem writeEnum_nb {cfg : Cfg} (H : CfgOk cfg) (e : RustEnum) (st : CustomMap) (text : Str) (st' : CustomMap)
    (he : EnumOk e) (h : writeEnum cfg e st = .ok (text, st')) : NB T text := by
  unfold writeEnum at h
  split at h
  · simp only at h; cases h
    intro stk
    have r1 := comments_nb 0 _ he.docs stk
    have r2 : Run T s%"export enum " ⟨.code, stk⟩ ⟨.code, stk⟩ := rfl
    have r3 := KeyStr.nb (cfg := T) he.renamed stk
    have r4 := generics_nb he.generics stk
    have r5 : Run T s%" {" ⟨.code, stk⟩ ⟨.code, '{' :: stk⟩ := rfl
    have r6 : NB T (e.variants.flatMap fun v =>
        nl ++ comments 1 v.comments ++ s%"\t" ++ v.id.original ++ s%" = " ++ debugStr v.id.renamed ++ s%",") := by
      apply NB.flatMap
      intro v hv
      have hvo := he.variants v hv
      nb_pieces
      · exact NB.nl
      · exact comments_nb 1 _ hvo.docs
      · nb_lit
      · exact IdentStr.nb hvo.original
      · nb_lit
      · exact NB.debugStr _
      · nb_lit
    have r7 : Run T s%"\n}\n\n" ⟨.code, '{' :: stk⟩ ⟨.code, stk⟩ := rfl
    exact (((((r1.append r2).append r3).append r4).append r5).append (r6 _)).append r7
  · rename_i tag content hk
    simp only at h
    obtain ⟨body, st1, hb, h⟩ := bind_pair_ok' h
    cases h
    nb_pieces
    · exact comments_nb 0 _ he.docs
    · nb_lit
    · exact KeyStr.nb he.renamed
    · exact generics_nb he.generics
    · nb_lit
    · exact writeVariants_nb H e tag content (he.tag _ hk) (he.content _ hk) e.variants st body _ he.variants hb
    · nb_lit

end TsV.C10TypeScript
