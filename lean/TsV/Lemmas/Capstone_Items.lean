import TsV.Lemmas.Capstone_Run
/-!
# Capstone — the per-item clauses, stated once for all back ends

`StructClauses` / `EnumClauses` package what C01, C02, C04 and C05 say about the declaration(s) a back
end generated for *one source item*, in terms of the source (`syn`) item: they are conjunctions of the
conclusions of those theorems, parametrised by what a back end has to supply — the keys its fact records
bind (`C01.structKeys` / `C01.enumKeys`), the reading of one field record per C04's binding semantics
(`Reads`), and the wire record of C02 (`EnumWire`).  `struct_clauses` / `enum_clauses` prove them from the
individual theorems; the per-language files only have to produce the fact records from `writeItem … = .ok b`.
-/
namespace TsV.Cap
open TsV TsV.Syn TsV.Parser TsV.Pipeline TsV.Generate TsV.C03E TsV.Lang TsV.Outcome TsV.C05L

/-! ## C05 behind C04's `Translates` -/

/-- Go's `write_field` passes every type text through `uppercase_acronyms`; the other back ends print the
translated text as it is -/
def acrOf (E : Ext) : LangCfg → Str → Outcome Str
  | .go cfg, raw => Go.acr E.U cfg raw
  | _, raw => .ok raw

/-- **C05 (i) applied to what C04 calls the translation**: the text is `show (translate …)` of the type
(for Go: followed by the acronym pass) -/
theorem translates_show (E : Ext) (gens : List Str) (t : RustType) (lc : LangCfg) (s : Str)
    (h : C04.Translates E gens t lc s) :
    ∃ raw, omap («show» (C05.langOf lc)) (translate (C05.langOf lc) (C05.tcfgOf lc) gens t) = .ok raw ∧
      acrOf E lc raw = .ok s := by
  cases lc with
  | typescript cfg =>
    obtain ⟨st, st', h⟩ := h
    have := C05.C05_compositional (.typescript cfg) { ts := st } gens t
    simp only [C05.formatText, h, omap_ok] at this
    exact ⟨s, this.symm, rfl⟩
  | kotlin cfg =>
    have := C05.C05_compositional (.kotlin cfg) {} gens t
    simp only [C05.formatText] at this
    have h' : Kotlin.formatType cfg gens t = .ok s := h
    rw [h'] at this
    exact ⟨s, this.symm, rfl⟩
  | swift cfg =>
    obtain ⟨st, st', h⟩ := h
    have := C05.C05_compositional (.swift cfg) { sw := st } gens t
    simp only [C05.formatText, h, omap_ok] at this
    exact ⟨s, this.symm, rfl⟩
  | scala cfg =>
    have := C05.C05_compositional (.scala cfg) {} gens t
    simp only [C05.formatText] at this
    have h' : Scala.formatType cfg gens t = .ok s := h
    rw [h'] at this
    exact ⟨s, this.symm, rfl⟩
  | go cfg =>
    obtain ⟨st, st', raw, h, hacr⟩ := h
    have := C05.C05_compositional (.go cfg) { go := st } gens t
    simp only [C05.formatText, h, omap_ok] at this
    exact ⟨raw, this.symm, hacr⟩
  | python cfg =>
    obtain ⟨st, st', h⟩ := h
    have := C05.C05_compositional (.python cfg) { py := st } gens t
    simp only [C05.formatText, h, omap_ok] at this
    exact ⟨s, this.symm, rfl⟩

/-! ## clause 3 (C04 + C05), one field -/

/-- what the declaration of one field says, seen from the source field `f`: it is marked optional (`o`)
exactly when the written type — after `serialized_as` — is `Option<_>` or `f` carries the bare
`serde(default)`; and its type text without the marker (`core`) is `show (translate …)` of the
`Option`-stripped type the back end received (Go: after the acronym pass) -/
def FieldOK (E : Ext) (lc : LangCfg) (gens : List Str) (f : Field) (rf' : RustField) (o : Bool) (core : Str) : Prop :=
  ∃ t, C04.effectiveType E f.attrs f.ty = some t ∧
    o = (C04.isOptionSyn t || C04.bareDefault f.attrs) ∧
    ∃ raw, omap («show» (C05.langOf lc)) (translate (C05.langOf lc) (C05.tcfgOf lc) gens (C04.stripOption rf'.ty)) = .ok raw ∧
      acrOf E lc raw = .ok core

/-- the fields of one declaration: source field, field the back end received, fact record — position by
position; `Reads p o core` is the back end's reading of the record per C04's binding semantics.  The
hypotheses are C04's scope (`InScope`) and known class. -/
def FieldsOK {γ : Type} (E : Ext) (lc : LangCfg) (ra : Option Str) (c : Str) (r : Renames) (gens : List Str)
    (Reads : γ → Bool → Str → Prop) (fs : List Field) (rfs' : List RustField) (facts : List γ) : Prop :=
  Forall₃ (fun f rf' p => FieldFrom E ra c r f rf' ∧
    (C04.InScope gens rf' lc → C04.Known_scalaDefaultNonOption lc rf' = false →
      ∃ o core, Reads p o core ∧ FieldOK E lc gens f rf' o core)) fs rfs' facts

theorem fieldOK_of {E : Ext} {lc : LangCfg} {ra : Option Str} {c : Str} {r : Renames} {gens : List Str}
    {f : Field} {rf' : RustField} {o : Bool} {core : Str}
    (hfrom : FieldFrom E ra c r f rf') (ho : o = C04.opt rf')
    (ht : C04.Translates E gens (C04.stripOption rf'.ty) lc core) : FieldOK E lc gens f rf' o core := by
  obtain ⟨t, ty, het, _, _, hopt, _, _⟩ := fieldFrom_opt hfrom
  exact ⟨t, het, by rw [ho, hopt], translates_show E gens _ lc core ht⟩

/-- what a back end has to supply for `FieldsOK`: C04's field clause on its records -/
theorem fieldsOK_of {γ : Type} {E : Ext} {lc : LangCfg} {ra : Option Str} {c : Str} {r : Renames} {gens : List Str}
    {Reads : γ → Bool → Str → Prop} {fs : List Field} {rfs' : List RustField} {facts : List γ}
    (hfrom : C01.Forall₂ (FieldFrom E ra c r) fs rfs')
    (hb : C04.Pointwise (fun rf' p => C04.InScope gens rf' lc → C04.Known_scalaDefaultNonOption lc rf' = false →
      ∃ o core, Reads p o core ∧ o = C04.opt rf' ∧ C04.Translates E gens (C04.stripOption rf'.ty) lc core) rfs' facts) :
    FieldsOK E lc ra c r gens Reads fs rfs' facts := by
  refine Forall₃.imp ?_ (Forall₃.mk' hfrom hb)
  rintro f rf' p ⟨hf, hp⟩
  refine ⟨hf, fun hs hk => ?_⟩
  obtain ⟨o, core, hr, ho, ht⟩ := hp hs hk
  exact ⟨o, core, hr, fieldOK_of hf ho ht⟩

/-! ## clauses 2 + 3 for a struct -/

/-- **a struct**: `keys` are the keys the generated declaration binds (C01's binding semantics applied to the
back end's fact records), `facts` the field records.
* C01: under C01's scope (`InScope`, `Distinct`) the keys are serde's keys of the kept source fields, in order;
* C04 + C05: `FieldsOK`. -/
def StructClauses {γ : Type} (E : Ext) (L : TsV.Lang) (lc : LangCfg) (targetOs : List Str) (c : Str) (r : Renames)
    (attrs : List Attr) (fs : List Field) (rs' : RustStruct) (keys : List Str)
    (Reads : γ → Bool → Str → Prop) (facts : List γ) : Prop :=
  ((∀ f ∈ C01.kept targetOs fs, C01.InScope E L (serdeRenameAll E attrs) f) → C01.Distinct L rs'.fields →
    C01.Forall₂ (C01.SerdeKey E (serdeRenameAll E attrs)) (C01.kept targetOs fs) keys) ∧
  FieldsOK E lc (serdeRenameAll E attrs) c r rs'.genericTypes Reads (C01.kept targetOs fs) rs'.fields facts

theorem struct_clauses {γ : Type} (E : Ext) (hU : E.U.AsciiCorrect) (L : TsV.Lang) (lc : LangCfg) (ctx : C01.Ctx L)
    (targetOs : List Str) (c : Str) (r : Renames) (attrs : List Attr) (ident : Str) (gens : List GenericParam)
    (fs : List Field) (rs : RustStruct) (keys : List Str) (Reads : γ → Bool → Str → Prop) (facts : List γ)
    (hparse : parseStruct E targetOs attrs ident gens (.named fs) = .ok (.struct rs))
    (hkeys : C01.structKeys E L ctx (recStruct c r rs) = .ok keys)
    (hb : C04.Pointwise (fun rf' p => C04.InScope (recStruct c r rs).genericTypes rf' lc →
      C04.Known_scalaDefaultNonOption lc rf' = false →
      ∃ o core, Reads p o core ∧ o = C04.opt rf' ∧
        C04.Translates E (recStruct c r rs).genericTypes (C04.stripOption rf'.ty) lc core)
      (recStruct c r rs).fields facts) :
    StructClauses E L lc targetOs c r attrs fs (recStruct c r rs) keys Reads facts :=
  ⟨fun hscope hd => (C01.C01 E hU L ctx targetOs).1 attrs ident gens fs rs (recStruct c r rs) keys hparse
      (recStruct_ids c r rs) hscope hd hkeys,
   fieldsOK_of (parseStruct_fieldsFrom E targetOs attrs ident gens fs rs c r hparse) hb⟩

/-! ## clauses 2 + 4 for an enum -/

/-- **an enum**: `kss` are the keys bound by the helper declarations of its struct variants (TypeScript: the
inline object types), `w` what the declaration says on the wire (C02's `EnumWire`).
* C01 (struct variants): under C01's scope the keys are serde's keys of the kept source fields of the
  kept struct variants, the rule being the *variant's* `rename_all`;
* C02: for a source enum in C02's scope (`InScopeSrc`) outside `C02.Known`, the cases are, in order, the
  kept source variants under serde's names, each a case of its own, and every printed tag / content key
  is the value of serde's `tag` / `content` attribute. -/
def EnumClauses (E : Ext) (L : TsV.Lang) (targetOs : List Str) (attrs : List Attr) (vs : List Variant)
    (e' : RustEnum) (acronyms : List Str) (kss : List (List Str)) (w : C02.EnumWire) : Prop :=
  ((∀ v ∈ vs.filter (fun v => !isSkipped v.attrs targetOs), ∀ fs, v.fields = .named fs →
      ∀ f ∈ C01.kept targetOs fs, C01.InScope E L (serdeRenameAll E v.attrs) f) →
    (∀ p ∈ structVariants e', C01.Distinct L p.2) →
    C01.Forall₂ (fun v ks => ∃ fs, v.fields = .named fs ∧
        C01.Forall₂ (C01.SerdeKey E (serdeRenameAll E v.attrs)) (C01.kept targetOs fs) ks)
      ((vs.filter fun v => !isSkipped v.attrs targetOs).filter C01.namedFields) kss) ∧
  (C02.InScopeSrc vs → ¬ C02.Known L E acronyms e' →
    w.cases.map (·.wire) =
      (vs.filter fun v => !isSkipped v.attrs targetOs).map (C02.variantName? E (serdeRenameAll E attrs)) ∧
    w.Distinct ∧
    ∀ k, ((C02.Role.tag, k) ∈ w.holes → getTagKey E attrs = some k) ∧
         ((C02.Role.content, k) ∈ w.holes → getContentKey E attrs = some k))

theorem enum_clauses (E : Ext) (hU : E.U.AsciiCorrect) (L : TsV.Lang) (ctx : C01.Ctx L)
    (targetOs : List Str) (c : Str) (r : Renames) (attrs : List Attr) (ident : Str) (gens : List GenericParam)
    (vs : List Variant) (e : RustEnum) (acronyms : List Str) (kss : List (List Str)) (w : C02.EnumWire)
    (hparse : parseEnum E targetOs attrs ident gens vs = .ok (.enum e))
    (hkeys : C01.enumKeys E L ctx (recEnum c r e) = .ok kss)
    (hw : C02.InScopeEnum (recEnum c r e) → ¬ C02.Known L E acronyms (recEnum c r e) → w.Correct (recEnum c r e)) :
    EnumClauses E L targetOs attrs vs (recEnum c r e) acronyms kss w := by
  refine ⟨fun hscope hd => (C01.C01 E hU L ctx targetOs).2 attrs ident gens vs e (recEnum c r e) kss hparse
      (recEnum_ids c r e) hscope hd hkeys, ?_⟩
  intro hsrc hk
  have hin := C02.C02_parse_inScope E hU targetOs attrs ident gens vs hsrc e hparse
  have hcorr := hw (recEnum_inScope c r e hin) hk
  have hc := correct_recEnum c r e w hcorr
  obtain ⟨h1, h2⟩ := C02.C02_end_to_end E hU targetOs attrs ident gens vs hsrc e hparse w hc
  exact ⟨h1, hc.distinct, h2⟩

end TsV.Cap
