import TsV.Lemmas.C14_Imports_Text
/-!
# C14, import clause — completeness on the sub-language where it holds

"In multi-file mode … every reference from a type in crate A to a typeshared type of crate B produces an import
of that type from B's module in A's output (TypeScript, Kotlin), and nothing is imported that is not
used/defined there."

`TsV.Props.C14` proves the *soundness* half for `used_imports` (`usedImports_sound`).  This file proves the
*completeness* half

1. for `Pipeline.usedImports` (`usedImports_exact`: exact membership; `usedImports_complete_named` / `_glob` /
   `_fallback` / `_firstOther`; the monotonicity lemmas of the scoped map are in `Lemmas/C14_Imports_Used`),
2. for the visitor and `reconcile_referenced_types` (`visit_import_named` / `visit_import_glob`,
   `file_import_named` / `file_import_glob`; the converse: `file_import_sound`),
3. composed through `parseAll` / `collect` / `reconcile` / the job list of a multi-file `Generate.run`
   (`import_complete`, `import_complete_glob`; the converse: `import_explained`) and down to the text the
   TypeScript and Kotlin back ends write (`import_line_typescript`, `import_line_kotlin`),

on the sub-language `inScope` (decidable), and shows with kernel-checked witnesses that completeness fails on the
two known classes `Known_use_rename` (`use alpha::Target as Target;`) and `Known_serde_rename`
(`#[serde(rename = "Renamed")] struct Target` imported by name from another crate): `witness_use_rename`,
`witness_serde_rename`, `C14_imports_not_full`; outside them: `C14_imports_partial`.

What "a reference from crate A to a type of crate B" means here (`Resolves`, `CrossRef`): an identifier that a
generated item of a file mentions (`all_references`: first character upper-case, not `Option`/`String`/`Vec`/
`HashMap`/`T`/`I54`/`U53`) and that a `use B::…;` tree of the same file binds to an item of `B`.  Not covered by
these statements: `use` trees that do not start with a path segment (`use {a::X, b::Y};` — `ItemUseIter` keeps
one base crate per `use` item), and qualified paths written inside types (`alpha::Target`, handled by
`Visitor.importOfPath`).
-/
namespace TsV.C14
open TsV TsV.Syn TsV.Pipeline TsV.Visitor TsV.C06M TsV.C14I

/-! ## 1. `used_imports` is complete -/

/-- **exact membership** (completeness and soundness of the fold in one statement): `t` is imported from crate
`c` iff some import of a crate other than the current one contributes it, where the contribution of an import
(`C06M.contrib`) is: its own name if its crate's entry of `all_types` lists it; every name of that entry for a
glob; otherwise its name under the crate the re-export fallback `fo` answers with. -/
theorem usedImports_exact (d : ParsedData) (all : List (Str × List Str)) (imports : List ImportedType)
    (fo : Str → Option Str) (c t : Str) :
    (∃ tys, (c, tys) ∈ usedImports d all imports fo ∧ t ∈ tys) ↔
      ∃ i ∈ imports, i.baseCrate ≠ d.crateName ∧ ∃ x, contrib all fo i = some x ∧ c = x.1 ∧ t ∈ x.2 :=
  usedImports_smem_iff d all imports fo c t

/-- **named import**: an import of another crate whose `all_types` entry lists the name is in the result -/
theorem usedImports_complete_named (d : ParsedData) (all : List (Str × List Str)) (imports : List ImportedType)
    (fo : Str → Option Str) (imp : ImportedType) (k : Str) (ns : List Str)
    (hi : imp ∈ imports) (hne : imp.baseCrate ≠ d.crateName)
    (hall : all.find? (·.1 == imp.baseCrate) = some (k, ns)) (hn : imp.typeName ∈ ns) :
    ∃ tys, (imp.baseCrate, tys) ∈ usedImports d all imports fo ∧ imp.typeName ∈ tys := by
  obtain ⟨x, hx, h1, h2⟩ := contrib_direct all fo imp k ns hall hn
  exact (usedImports_smem_iff d all imports fo _ _).2 ⟨imp, hi, hne, x, hx, h1, h2⟩

/-- the same with the crate's entry given by membership in a map with distinct keys -/
theorem usedImports_complete_named' (d : ParsedData) (all : List (Str × List Str)) (imports : List ImportedType)
    (fo : Str → Option Str) (imp : ImportedType) (ns : List Str) (hkeys : (all.map (·.1)).Nodup)
    (hi : imp ∈ imports) (hne : imp.baseCrate ≠ d.crateName)
    (hall : (imp.baseCrate, ns) ∈ all) (hn : imp.typeName ∈ ns) :
    ∃ tys, (imp.baseCrate, tys) ∈ usedImports d all imports fo ∧ imp.typeName ∈ tys :=
  usedImports_complete_named d all imports fo imp _ ns hi hne (find?_key_of_mem all _ ns hkeys hall) hn

/-- **glob import**: the crate gets an import line and every name of its `all_types` entry is imported -/
theorem usedImports_complete_glob (d : ParsedData) (all : List (Str × List Str)) (imports : List ImportedType)
    (fo : Str → Option Str) (imp : ImportedType) (k : Str) (ns : List Str)
    (hi : imp ∈ imports) (hne : imp.baseCrate ≠ d.crateName)
    (hall : all.find? (·.1 == imp.baseCrate) = some (k, ns)) (hstar : imp.typeName = s%"*") :
    imp.baseCrate ∈ (usedImports d all imports fo).map (·.1) ∧
    ∀ n ∈ ns, ∃ tys, (imp.baseCrate, tys) ∈ usedImports d all imports fo ∧ n ∈ tys := by
  have hc := contrib_glob all fo imp k ns hall hstar
  refine ⟨(usedImports_keys_iff d all imports fo _).2 ⟨imp, hi, hne, _, hc, rfl⟩, ?_⟩
  intro n hn
  exact (usedImports_smem_iff d all imports fo _ _).2 ⟨imp, hi, hne, _, hc, rfl, hn⟩

/-- **fallback**: an import that does not resolve directly (`takesFallback`: its crate is not part of the run,
or does not list the name) is imported from the crate the fallback oracle answers with -/
theorem usedImports_complete_fallback (d : ParsedData) (all : List (Str × List Str)) (imports : List ImportedType)
    (fo : Str → Option Str) (imp : ImportedType) (c : Str)
    (hi : imp ∈ imports) (hne : imp.baseCrate ≠ d.crateName)
    (htf : takesFallback all imp = true) (hfo : fo imp.typeName = some c) :
    ∃ tys, (c, tys) ∈ usedImports d all imports fo ∧ imp.typeName ∈ tys := by
  have hc := contrib_fallback all fo imp htf
  rw [hfo] at hc
  exact (usedImports_smem_iff d all imports fo _ _).2 ⟨imp, hi, hne, _, hc, rfl, by simp⟩

/-- the fallback with the pipeline's oracle `Generate.firstOther`: if some other crate lists the name, the
name is imported from the crate `firstOther` returns — which is another crate that lists it -/
theorem usedImports_complete_firstOther (d : ParsedData) (all : List (Str × List Str))
    (imports : List ImportedType) (imp : ImportedType)
    (hi : imp ∈ imports) (hne : imp.baseCrate ≠ d.crateName) (htf : takesFallback all imp = true)
    (hex : ∃ p ∈ all, p.1 ≠ d.crateName ∧ imp.typeName ∈ p.2) :
    ∃ c, Generate.firstOther all d.crateName imp.typeName = some c ∧ c ≠ d.crateName ∧
      (∃ ns, (c, ns) ∈ all ∧ imp.typeName ∈ ns) ∧
      ∃ tys, (c, tys) ∈ usedImports d all imports (Generate.firstOther all d.crateName) ∧ imp.typeName ∈ tys := by
  obtain ⟨c, hc⟩ := firstOther_complete all d.crateName imp.typeName hex
  have hs := firstOther_spec all d.crateName imp.typeName c hc
  exact ⟨c, hc, hs.1, hs.2, usedImports_complete_fallback d all imports _ imp c hi hne htf hc⟩

/-! ## 2. the visitor and `reconcile_referenced_types` -/

/-- the `use` tree has the form `use c::…;` and lists the name `T` (`use c::T;`, `use c::{…, T, …};`,
`use c::m::T;` …; a leaf `X as T` does not count) -/
def ImportsNamed (tree : UseTree) (c T : Str) : Bool :=
  match tree with
  | .path b sub => b == c && (leafNames sub).contains T
  | _ => false

/-- the `use` tree has the form `use c::…;` and contains a glob (`use c::*;`, `use c::{A, m::*};` …) -/
def ImportsGlob (tree : UseTree) (c : Str) : Bool :=
  match tree with
  | .path b sub => b == c && hasGlob sub
  | _ => false

/-- some `use` item of the file (at any depth) brings `c`'s `T` into scope by name / by a glob -/
def FileImportsNamed (f : File) (c T : Str) : Bool := (useTreesList f.items).any (ImportsNamed · c T)
def FileImportsGlob (f : File) (c : Str) : Bool := (useTreesList f.items).any (ImportsGlob · c)

/-- what `accept_crate` demands of the crate name of a `use` path (first character lower-case, not one of the
24 well-known crates `std`, `serde`, `tokio` …), and: it is a crate name, not `crate` / `self` / `super` (those
are resolved to the current crate) -/
def CrateInScope (U : UnicodeOps) (c : Str) : Bool := acceptCrate U c && !isSelfish c

theorem importsNamed_plain (c T : Str) : ImportsNamed (.path c (.name T)) c T = true := by
  simp [ImportsNamed, leafNames]

theorem importsNamed_group (c T : Str) (ts : List UseTree) (h : UseTree.name T ∈ ts) :
    ImportsNamed (.path c (.group ts)) c T = true := by
  simp only [ImportsNamed, beq_self_eq_true, Bool.true_and, List.contains_iff_mem, leafNames]
  exact (mem_leafNamesList T ts).2 ⟨_, h, by simp [leafNames]⟩

theorem importsGlob_plain (c : Str) : ImportsGlob (.path c .glob) c = true := by
  simp [ImportsGlob, hasGlob]

/-- **named `use`**: `T` of crate `c`, brought in by `use c::T;` / `use c::{…, T, …};`, is in the file's
`import_types` with base crate `c` — provided `c` passes `accept_crate`, `T` passes `accept_type` (first
character upper-case, not `Option`/`String`/`Vec`/`HashMap`/`T`/`I54`/`U53`) and `T` has no type mapping in the
language configuration (`ctx.ignoredTypes`) -/
theorem visit_import_named (E : Ext) (ctx : ParseContext) (hmf : ctx.multiFile = true) (cn fn fp : Str)
    (f : File) (d : ParsedData) (hv : visitFile E ctx cn fn fp f = .ok d) (hne : isEmpty d = false)
    (c T : Str) (huse : FileImportsNamed f c T = true) (hc : CrateInScope E.U c = true)
    (hT : acceptType E.U T = true) (hmap : T ∉ ctx.ignoredTypes) :
    ⟨c, T⟩ ∈ d.importTypes := by
  simp only [FileImportsNamed, List.any_eq_true] at huse
  obtain ⟨tree, htree, hin⟩ := huse
  simp only [CrateInScope, Bool.and_eq_true, Bool.not_eq_true'] at hc
  cases tree with
  | path b sub =>
    simp only [ImportsNamed, Bool.and_eq_true, beq_iff_eq, List.contains_iff_mem] at hin
    obtain ⟨rfl, hleaf⟩ := hin
    apply visitFile_uses E ctx hmf cn fn fp f d hv hne _ htree
    have hr : resolveBase cn b = b := by simp [resolveBase, hc.2]
    simp only [useImports, List.mem_filter, Bool.not_eq_true']
    refine ⟨(useIter_path E cn b sub _).2 ⟨by rw [hr]; exact hc.1, Or.inl ⟨T, hleaf, hT, by rw [hr]⟩⟩, ?_⟩
    simpa using hmap
  | name _ => simp [ImportsNamed] at hin
  | rename _ _ => simp [ImportsNamed] at hin
  | glob => simp [ImportsNamed] at hin
  | group _ => simp [ImportsNamed] at hin

/-- **glob `use`**: `use c::*;` puts `(c, *)` into the file's `import_types` -/
theorem visit_import_glob (E : Ext) (ctx : ParseContext) (hmf : ctx.multiFile = true) (cn fn fp : Str)
    (f : File) (d : ParsedData) (hv : visitFile E ctx cn fn fp f = .ok d) (hne : isEmpty d = false)
    (c : Str) (huse : FileImportsGlob f c = true) (hc : CrateInScope E.U c = true)
    (hmap : s%"*" ∉ ctx.ignoredTypes) :
    ⟨c, s%"*"⟩ ∈ d.importTypes := by
  simp only [FileImportsGlob, List.any_eq_true] at huse
  obtain ⟨tree, htree, hin⟩ := huse
  simp only [CrateInScope, Bool.and_eq_true, Bool.not_eq_true'] at hc
  cases tree with
  | path b sub =>
    simp only [ImportsGlob, Bool.and_eq_true, beq_iff_eq] at hin
    obtain ⟨rfl, hg⟩ := hin
    apply visitFile_uses E ctx hmf cn fn fp f d hv hne _ htree
    have hr : resolveBase cn b = b := by simp [resolveBase, hc.2]
    simp only [useImports, List.mem_filter, Bool.not_eq_true']
    refine ⟨(useIter_path E cn b sub _).2 ⟨by rw [hr]; exact hc.1, Or.inr ⟨hg, by rw [hr]⟩⟩, ?_⟩
    simpa using hmap
  | name _ => simp [ImportsGlob] at hin
  | rename _ _ => simp [ImportsGlob] at hin
  | glob => simp [ImportsGlob] at hin
  | group _ => simp [ImportsGlob] at hin

/-- **through `parser::parse`** (visitor + `reconcile_referenced_types`): a type name `T` that a generated item
of the file references (`all_references`), that the file does not define itself, that is brought in by a named
`use` of crate `c`, and for which no import of another crate carries the same name, is in the arrival's
`import_types` with base crate `c` -/
theorem file_import_named (E : Ext) (ctx : ParseContext) (hmf : ctx.multiFile = true)
    (pick : List ImportedType → Option ImportedType) (hpick : ValidPick pick) (cn fn fp : Str)
    (f : File) (d : ParsedData) (hm : f.marker = true) (hv : visitFile E ctx cn fn fp f = .ok d)
    (c T : Str) (huse : FileImportsNamed f c T = true) (hc : CrateInScope E.U c = true)
    (hmap : T ∉ ctx.ignoredTypes) (href : T ∈ allReferences E.U d) (hloc : T ∉ d.typeNames)
    (huniq : ∀ j ∈ d.importTypes, j.typeName = T → j.baseCrate = c) :
    ∃ a, parseFile E ctx pick cn fn fp f = .ok (some a) ∧ a.crateName = cn ∧ a.typeNames = d.typeNames ∧
      ⟨c, T⟩ ∈ a.importTypes := by
  have hne := isEmpty_false_of_ref E.U d T href
  have hT : acceptType E.U T = true := ((mem_allReferences E.U d T).1 href).1
  refine ⟨_, parseFile_of_visit E ctx hmf pick cn fn fp f d hm hv hne,
    (visitFile_meta E ctx cn fn fp f d hv).1, rfl, ?_⟩
  exact reconcile_keeps_named E.U pick hpick d c T
    (visit_import_named E ctx hmf cn fn fp f d hv hne c T huse hc hT hmap) href hloc huniq

/-- the same for a glob: `(c, *)` survives whenever the file generates anything -/
theorem file_import_glob (E : Ext) (ctx : ParseContext) (hmf : ctx.multiFile = true)
    (pick : List ImportedType → Option ImportedType) (cn fn fp : Str)
    (f : File) (d : ParsedData) (hm : f.marker = true) (hv : visitFile E ctx cn fn fp f = .ok d)
    (hne : isEmpty d = false) (c : Str) (huse : FileImportsGlob f c = true) (hc : CrateInScope E.U c = true)
    (hmap : s%"*" ∉ ctx.ignoredTypes) :
    ∃ a, parseFile E ctx pick cn fn fp f = .ok (some a) ∧ a.crateName = cn ∧ a.typeNames = d.typeNames ∧
      ⟨c, s%"*"⟩ ∈ a.importTypes :=
  ⟨_, parseFile_of_visit E ctx hmf pick cn fn fp f d hm hv hne, (visitFile_meta E ctx cn fn fp f d hv).1, rfl,
    reconcile_keeps_glob E.U pick d c (visit_import_glob E ctx hmf cn fn fp f d hv hne c huse hc hmap)⟩

/-- **"nothing is imported that is not used", file level**: every import of an arrival was produced by the
file's visitor, and is a glob or names a type that a generated item of the file references and that the file
does not define -/
theorem file_import_sound (E : Ext) (ctx : ParseContext) (hmf : ctx.multiFile = true)
    (pick : List ImportedType → Option ImportedType) (hpick : ValidPick pick) (cn fn fp : Str)
    (f : File) (a : ParsedData) (h : parseFile E ctx pick cn fn fp f = .ok (some a)) (i : ImportedType)
    (hi : i ∈ a.importTypes) :
    ∃ d, visitFile E ctx cn fn fp f = .ok d ∧ i ∈ d.importTypes ∧
      (i.typeName = s%"*" ∨ (i.typeName ∈ allReferences E.U d ∧ i.typeName ∉ d.typeNames)) := by
  obtain ⟨d, hv, _, _, rfl⟩ := visit_of_parseFile E ctx hmf pick cn fn fp f a h
  exact ⟨d, hv, reconcile_sound E.U pick hpick d i hi⟩

/-- where the two premises "referenced" and "defined" come from at source level: an annotated, accepted item
of a visited file that parses is recorded, and its output name is in `type_names` … -/
theorem defined_of_item (E : Ext) (ctx : ParseContext) (cn fn fp : Str) (f : File) (d : ParsedData)
    (hv : visitFile E ctx cn fn fp f = .ok d) (hne : isEmpty d = false) (it : Item)
    (hit : it ∈ C03.annotatedList ctx f.items) (ri : RustItem) (hri : C03.parseItem E ctx it = .ok ri) :
    ItemIn ri d ∧ ri.renamedName ∈ d.typeNames :=
  visitFile_defines E ctx cn fn fp f d hv hne it hit ri hri

/-- … and an identifier occurring in the type of a field of a recorded struct is referenced -/
theorem referenced_of_struct_field (U : UnicodeOps) (d : ParsedData) (s : RustStruct) (fl : RustField) (T : Str)
    (hs : s ∈ d.structs) (hf : fl ∈ s.fields) (hT : T ∈ fl.ty.allIds) (hacc : acceptType U T = true) :
    T ∈ allReferences U d := ref_of_struct_field U d s fl T hs hf hT hacc

/-! ## 3. composition: the job list of a multi-file run -/

/-- the parse context `Generate.run` uses in multi-file mode -/
def runCtx (lang : Generate.LangCfg) (targetOs : List Str) : ParseContext :=
  { ignoredTypes := Generate.ignoredTypes lang, multiFile := true, targetOs }

/-- the job of crate `A` (there is one) carries scoped imports that list `T` under crate `B`.
(`C06M.run_multi_eq`: `jobsWith id (collect arrivals)` *is* the job list `Generate.run` hands to the back end.) -/
def ImportedInJob (arrivals : List ParsedData) (A B T : Str) : Prop :=
  ∃ j ∈ jobsWith id (collect arrivals), j.1 = A ∧ ∃ imps, j.2.2 = some imps ∧ ∃ tys, (B, tys) ∈ imps ∧ T ∈ tys

/-- **from the arrivals to the job**: an arrival of crate `A` that imports `(B, X)`, `B ≠ A`, and an arrival
of crate `B`: a named import whose name `B` defines is in the scoped imports of `A`'s job; a glob import puts
every type name of `B`'s arrival there -/
theorem imported_of_arrivals (arrivals : List ParsedData) (dA dB : ParsedData) (hA : dA ∈ arrivals)
    (hB : dB ∈ arrivals) (X : Str) (himp : ⟨dB.crateName, X⟩ ∈ dA.importTypes)
    (hne : dB.crateName ≠ dA.crateName) :
    (X ∈ dB.typeNames → ImportedInJob arrivals dA.crateName dB.crateName X) ∧
    (X = s%"*" → ∀ n ∈ dB.typeNames, ImportedInJob arrivals dA.crateName dB.crateName n) := by
  obtain ⟨heA, hcA, hiA, _⟩ := entry_of_arrival arrivals dA hA
  obtain ⟨heB, _, _, htB⟩ := entry_of_arrival arrivals dB hB
  obtain ⟨v', hjob, hvi, hvc, _⟩ := job_of_entry (collect arrivals) _ _ heA
  have hfind := allTypes_find (collect arrivals) (Collect.collect_sorted arrivals) _ _ heB
  have himp' : (⟨dB.crateName, X⟩ : ImportedType) ∈ v'.importTypes := by rw [hvi]; exact hiA _ himp
  have hne' : (⟨dB.crateName, X⟩ : ImportedType).baseCrate ≠ v'.crateName := by rw [hvc, hcA]; exact hne
  constructor
  · intro hX
    exact ⟨_, hjob, rfl, _, rfl,
      usedImports_complete_named v' _ _ _ ⟨dB.crateName, X⟩ _ _ himp' hne' hfind (htB X hX)⟩
  · intro hX n hn
    exact ⟨_, hjob, rfl, _, rfl,
      (usedImports_complete_glob v' _ _ _ ⟨dB.crateName, X⟩ _ _ himp' hne' hfind hX).2 n (htB n hn)⟩

/-- **C14, import clause, completeness (named `use`).**  In a multi-file run whose files parse: a file `f` of
crate `A` with a generated item that references the type name `T` (`all_references`), where `T` is brought in
by `use B::T;` / `use B::{…, T, …};` (`FileImportsNamed`), `B ≠ A` a crate name `accept_crate` accepts, `T`
without a type mapping, not defined in `f` itself, no import of another crate in `f` with the same name; and a
file `g` of crate `B` whose result defines a type with *output* name `T` (`type_names` holds the renamed names:
for a type without `serde(rename)` that is its Rust name).  Then crate `A` has a job, and its scoped imports —
what the TypeScript / Kotlin back end prints as the import clause — list `T` under `B`. -/
theorem import_complete (E : Ext) (lang : Generate.LangCfg) (targetOs : List Str)
    (pick : List ImportedType → Option ImportedType) (hpick : ValidPick pick)
    (files : List Generate.SourceFile) (arrivals : List ParsedData)
    (hparse : Generate.parseAll E (runCtx lang targetOs) pick files = .ok arrivals)
    (f : Generate.SourceFile) (hf : f ∈ files) (hm : f.file.marker = true) (dA : ParsedData)
    (hv : visitFile E (runCtx lang targetOs) f.crateName f.fileName f.path f.file = .ok dA)
    (B T : Str) (huse : FileImportsNamed f.file B T = true) (hB : CrateInScope E.U B = true)
    (hmap : T ∉ Generate.ignoredTypes lang)
    (href : T ∈ allReferences E.U dA) (hloc : T ∉ dA.typeNames)
    (huniq : ∀ j ∈ dA.importTypes, j.typeName = T → j.baseCrate = B)
    (hne : B ≠ f.crateName)
    (g : Generate.SourceFile) (hg : g ∈ files) (hgB : g.crateName = B) (dB : ParsedData)
    (hgp : parseFile E (runCtx lang targetOs) pick g.crateName g.fileName g.path g.file = .ok (some dB))
    (hdef : T ∈ dB.typeNames) :
    ImportedInJob arrivals f.crateName B T := by
  obtain ⟨a, hpa, hac, _, hai⟩ := file_import_named E (runCtx lang targetOs) rfl pick hpick f.crateName f.fileName
    f.path f.file dA hm hv B T huse hB hmap href hloc huniq
  have hA := parseAll_mem E _ pick files arrivals hparse f hf a hpa
  have hBm := parseAll_mem E _ pick files arrivals hparse g hg dB hgp
  obtain ⟨dv, hdv, _, _, hdB⟩ := visit_of_parseFile E (runCtx lang targetOs) rfl pick _ _ _ _ dB hgp
  have hcB : dB.crateName = B := by
    rw [hdB, reconcile_crateName, (visitFile_meta E _ _ _ _ _ dv hdv).1, hgB]
  have := (imported_of_arrivals arrivals a dB hA hBm T (by rw [hcB]; exact hai) (by rw [hcB, hac]; exact hne)).1 hdef
  rw [hcB, hac] at this
  exact this

/-- **C14, import clause, completeness (glob `use`).**  A file `f` of crate `A` that generates something and has
`use B::*;` (`FileImportsGlob`): every type name of every result of crate `B` — serde-renamed or not — is in
the scoped imports of `A`'s job under `B` (whether `f` references it or not). -/
theorem import_complete_glob (E : Ext) (lang : Generate.LangCfg) (targetOs : List Str)
    (pick : List ImportedType → Option ImportedType)
    (files : List Generate.SourceFile) (arrivals : List ParsedData)
    (hparse : Generate.parseAll E (runCtx lang targetOs) pick files = .ok arrivals)
    (f : Generate.SourceFile) (hf : f ∈ files) (hm : f.file.marker = true) (dA : ParsedData)
    (hv : visitFile E (runCtx lang targetOs) f.crateName f.fileName f.path f.file = .ok dA)
    (hnonempty : isEmpty dA = false)
    (B : Str) (huse : FileImportsGlob f.file B = true) (hB : CrateInScope E.U B = true)
    (hmap : s%"*" ∉ Generate.ignoredTypes lang) (hne : B ≠ f.crateName)
    (g : Generate.SourceFile) (hg : g ∈ files) (hgB : g.crateName = B) (dB : ParsedData)
    (hgp : parseFile E (runCtx lang targetOs) pick g.crateName g.fileName g.path g.file = .ok (some dB))
    (T : Str) (hdef : T ∈ dB.typeNames) :
    ImportedInJob arrivals f.crateName B T := by
  obtain ⟨a, hpa, hac, _, hai⟩ := file_import_glob E (runCtx lang targetOs) rfl pick f.crateName f.fileName
    f.path f.file dA hm hv hnonempty B huse hB hmap
  have hA := parseAll_mem E _ pick files arrivals hparse f hf a hpa
  have hBm := parseAll_mem E _ pick files arrivals hparse g hg dB hgp
  obtain ⟨dv, hdv, _, _, hdB⟩ := visit_of_parseFile E (runCtx lang targetOs) rfl pick _ _ _ _ dB hgp
  have hcB : dB.crateName = B := by
    rw [hdB, reconcile_crateName, (visitFile_meta E _ _ _ _ _ dv hdv).1, hgB]
  have := (imported_of_arrivals arrivals a dB hA hBm (s%"*") (by rw [hcB]; exact hai)
    (by rw [hcB, hac]; exact hne)).2 rfl T hdef
  rw [hcB, hac] at this
  exact this

/-- **"nothing is imported that is not used/defined there", whole run**: every `(B, T)` in the scoped imports
of a job is the contribution (`C06M.contrib`: named / glob / fallback) of an import `i` that the visitor produced
for some file of that crate, from a crate other than the job's, and `i` is a glob or names a type that a
generated item of that file references and that file does not define.  (With `TsV.C14.usedImports_sound`: `B`
is another crate of the run and defines `T`.) -/
theorem import_explained (E : Ext) (lang : Generate.LangCfg) (targetOs : List Str)
    (pick : List ImportedType → Option ImportedType) (hpick : ValidPick pick)
    (files : List Generate.SourceFile) (arrivals : List ParsedData)
    (hparse : Generate.parseAll E (runCtx lang targetOs) pick files = .ok arrivals)
    (j : Job) (hj : j ∈ jobsWith id (collect arrivals)) (imps : ScopedCrateTypes) (hji : j.2.2 = some imps)
    (B T : Str) (h : ∃ tys, (B, tys) ∈ imps ∧ T ∈ tys) :
    ∃ f ∈ files, f.crateName = j.1 ∧ ∃ dv,
      visitFile E (runCtx lang targetOs) f.crateName f.fileName f.path f.file = .ok dv ∧
      ∃ i ∈ dv.importTypes, i.baseCrate ≠ j.1 ∧
        (i.typeName = s%"*" ∨ (i.typeName ∈ allReferences E.U dv ∧ i.typeName ∉ dv.typeNames)) ∧
        ∃ x, contrib (allTypes (collect arrivals)) (Generate.firstOther (allTypes (collect arrivals)) j.1) i = some x ∧
          B = x.1 ∧ T ∈ x.2 := by
  obtain ⟨v, hv, hvi, hvc, hvu⟩ := job_inv (collect arrivals) j hj
  have hcn : j.2.1.crateName = j.1 := hvc.trans (entry_crateName arrivals j.1 v hv)
  rw [hji, Option.some.injEq] at hvu
  subst hvu
  rw [hcn] at h
  obtain ⟨i, hi, hne, x, hx, hB, hT⟩ := (usedImports_smem_iff _ _ _ _ B T).1 h
  rw [hcn] at hne
  rw [hvi] at hi
  obtain ⟨d, hd, hdc, hid⟩ := entry_imports_inv arrivals j.1 v hv i hi
  obtain ⟨f, hf, hp⟩ := parseAll_mem_inv E _ pick files arrivals hparse d hd
  obtain ⟨dv, hdv, hin, hor⟩ := file_import_sound E (runCtx lang targetOs) rfl pick hpick _ _ _ _ d hp i hid
  obtain ⟨dv', hdv', _, _, hdd⟩ := visit_of_parseFile E (runCtx lang targetOs) rfl pick _ _ _ _ d hp
  have hfc : f.crateName = j.1 := by
    rw [← hdc, hdd, reconcile_crateName, (visitFile_meta E _ _ _ _ _ dv' hdv').1]
  exact ⟨f, hf, hfc, dv, hdv, i, hin, hne, hor, x, hx, hB, hT⟩

/-! ### down to the generated text (TypeScript, Kotlin) -/

/-- **Kotlin**: when the run produces output, the file of crate `A` contains the line
`import <package>.<B>.<T>` for every `(B, T)` in the scoped imports of `A`'s job -/
theorem import_line_kotlin (E : Ext) (cfg : Lang.Kotlin.Cfg) (targetOs : List Str)
    (pick : List ImportedType → Option ImportedType) (files : List Generate.SourceFile)
    (arrivals : List ParsedData) (outs : List (Str × Str))
    (hparse : Generate.parseAll E (runCtx (.kotlin cfg) targetOs) pick files = .ok arrivals)
    (hrun : Generate.run E (.kotlin cfg) true targetOs pick files = .ok (.outputs outs))
    (A B T : Str) (himp : ImportedInJob arrivals A B T) :
    ∃ text, (A, text) ∈ outs ∧ ktImportLine cfg B T <:+: text := by
  obtain ⟨j, hj, rfl, imps, hji, tys, hm, ht⟩ := himp
  have hgen := run_outputs_kotlin E cfg targetOs pick files arrivals outs hparse hrun
  obtain ⟨text, hout, hg⟩ := kt_generateFrom_mem cfg _ outs hgen j hj
  rw [hji] at hg
  have hmf := job_multiFile arrivals (arrivals_multiFile E _ rfl pick files arrivals hparse) j hj
  exact ⟨text, hout, kt_generate_line cfg j.2.1 imps text hmf hg B T tys hm ht⟩

/-- **TypeScript**: when the run produces output, the file of crate `A` contains the line
`import { …, T, … } from "./B";` -/
theorem import_line_typescript (E : Ext) (cfg : Lang.TypeScript.Cfg) (targetOs : List Str)
    (pick : List ImportedType → Option ImportedType) (files : List Generate.SourceFile)
    (arrivals : List ParsedData) (outs : List (Str × Str))
    (hparse : Generate.parseAll E (runCtx (.typescript cfg) targetOs) pick files = .ok arrivals)
    (hrun : Generate.run E (.typescript cfg) true targetOs pick files = .ok (.outputs outs))
    (A B T : Str) (himp : ImportedInJob arrivals A B T) :
    ∃ text, (A, text) ∈ outs ∧ ∃ tys, T ∈ tys ∧ tsImportLine B tys <:+: text := by
  obtain ⟨j, hj, rfl, imps, hji, tys, hm, ht⟩ := himp
  have hgen := run_outputs_typescript E cfg targetOs pick files arrivals outs hparse hrun
  obtain ⟨text, st0, st1, hout, hg⟩ := ts_generateFrom_mem E.U cfg _ _ outs hgen j hj
  rw [hji] at hg
  exact ⟨text, hout, tys, ht, ts_generate_line E.U cfg j.2.1 imps st0 st1 text hg B tys hm⟩

/-! ## 4. the statement at full strength, the two known classes, and what holds outside them -/

/-- Rust name resolution through `use` items, as far as `use` trees of the form `use c::…;` go: the identifier
`name` in file `f` denotes the item `orig` of crate `c` — by `use c::…::orig;` / `use c::{…, orig, …};` /
`use c::…::*;` (then `name = orig`) or by `use c::…::orig as name;` -/
def Resolves (f : File) (name c orig : Str) : Bool :=
  (useTreesList f.items).any fun t =>
    match t with
    | .path b sub =>
      b == c && ((name == orig && ((leafNames sub).contains orig || hasGlob sub)) ||
        (renameLeaves sub).contains (orig, name))
    | _ => false

/-- a generated item of file `f` (crate `A`) references, under the identifier `name`, the typeshared type
`tid` that file `g` of another crate `B` declares under the Rust name `orig` -/
structure CrossRef (E : Ext) (ctx : ParseContext) (files : List Generate.SourceFile)
    (f g : Generate.SourceFile) (dA dB : ParsedData) (name orig : Str) (tid : Id) : Prop where
  fIn : f ∈ files
  gIn : g ∈ files
  fMarker : f.file.marker = true
  gMarker : g.file.marker = true
  fVisit : visitFile E ctx f.crateName f.fileName f.path f.file = .ok dA
  gVisit : visitFile E ctx g.crateName g.fileName g.path g.file = .ok dB
  otherCrate : g.crateName ≠ f.crateName
  resolves : Resolves f.file name g.crateName orig = true
  referenced : name ∈ allReferences E.U dA
  notLocal : ∀ t ∈ typeIds dA, t.original ≠ name
  declared : tid ∈ typeIds dB
  declaredAs : tid.original = orig

/-- **C14, import clause, at full strength**: every such cross-crate reference yields an import of the type's
*output* name (`tid.renamed`: that is what `B`'s module exports) from `B` in the job of `A` -/
def C14_imports_full : Prop :=
  ∀ (E : Ext) (lang : Generate.LangCfg) (targetOs : List Str) (pick : List ImportedType → Option ImportedType)
    (files : List Generate.SourceFile) (arrivals : List ParsedData),
    ValidPick pick → Generate.parseAll E (runCtx lang targetOs) pick files = .ok arrivals →
    ∀ (f g : Generate.SourceFile) (dA dB : ParsedData) (name orig : Str) (tid : Id),
      CrossRef E (runCtx lang targetOs) files f g dA dB name orig tid →
      ImportedInJob arrivals f.crateName g.crateName tid.renamed

/-- known class 1 (`use alpha::Target as Target;`): the reference resolves through an `… as …` leaf, which
`ItemUseIter` skips -/
def Known_use_rename (f : File) (name c orig : Str) : Bool :=
  (useTreesList f.items).any fun t =>
    match t with
    | .path b sub => b == c && (renameLeaves sub).contains (orig, name)
    | _ => false

/-- known class 2 (`#[serde(rename = "Renamed")] struct Target` used from another crate by name): the type's
output name differs from its Rust name and no glob import of its crate rescues it (`used_imports` looks the
*Rust* name up among the crate's *output* names) -/
def Known_serde_rename (f : File) (c : Str) (tid : Id) : Bool :=
  tid.renamed != tid.original && !FileImportsGlob f c

/-- the sub-language: the crate name passes `accept_crate` and is not `crate`/`self`/`super`; neither the name
nor `*` has a type mapping in the language configuration; the file does not itself emit a type of that name;
no import of the file carries the name with another base crate -/
def inScope (E : Ext) (lang : Generate.LangCfg) (dA : ParsedData) (B name : Str) : Bool :=
  CrateInScope E.U B && !(Generate.ignoredTypes lang).contains name &&
  !(Generate.ignoredTypes lang).contains s%"*" && !dA.typeNames.contains name &&
  dA.importTypes.all fun j => j.typeName != name || j.baseCrate == B

/-- **C14, import clause, partial**: the full statement holds for every cross-crate reference in scope that is
in neither known class -/
theorem C14_imports_partial (E : Ext) (lang : Generate.LangCfg) (targetOs : List Str)
    (pick : List ImportedType → Option ImportedType) (hpick : ValidPick pick)
    (files : List Generate.SourceFile) (arrivals : List ParsedData)
    (hparse : Generate.parseAll E (runCtx lang targetOs) pick files = .ok arrivals)
    (f g : Generate.SourceFile) (dA dB : ParsedData) (name orig : Str) (tid : Id)
    (h : CrossRef E (runCtx lang targetOs) files f g dA dB name orig tid)
    (hs : inScope E lang dA g.crateName name = true)
    (k1 : Known_use_rename f.file name g.crateName orig = false)
    (k2 : Known_serde_rename f.file g.crateName tid = false) :
    ImportedInJob arrivals f.crateName g.crateName tid.renamed := by
  simp only [inScope, Bool.and_eq_true, Bool.not_eq_true', List.all_eq_true, Bool.or_eq_true, bne_iff_ne, ne_eq,
    beq_iff_eq] at hs
  obtain ⟨⟨⟨⟨hcrate, hmapN⟩, hmapS⟩, hlocN⟩, huniq⟩ := hs
  have hneB : isEmpty dB = false := isEmpty_false_of_typeId dB tid h.declared
  have hgp := parseFile_of_visit E (runCtx lang targetOs) rfl pick g.crateName g.fileName g.path g.file dB
    h.gMarker h.gVisit hneB
  have hdef : tid.renamed ∈ (reconcileReferencedTypes E.U pick dB).typeNames :=
    visitFile_namesRecorded E _ _ _ _ _ dB h.gVisit tid h.declared
  by_cases hglob : FileImportsGlob f.file g.crateName = true
  · exact import_complete_glob E lang targetOs pick files arrivals hparse f h.fIn h.fMarker dA h.fVisit
      (isEmpty_false_of_ref E.U dA name h.referenced) g.crateName hglob hcrate (by simpa using hmapS)
      h.otherCrate g h.gIn rfl _ hgp tid.renamed hdef
  · have hglob' : FileImportsGlob f.file g.crateName = false := by simpa using hglob
    have hren : tid.renamed = tid.original := by
      simp only [Known_serde_rename, hglob', Bool.not_false, Bool.and_true] at k2
      simpa using k2
    -- the resolving `use` tree lists the name
    have hres := h.resolves
    simp only [Resolves, List.any_eq_true] at hres
    obtain ⟨tree, htree, hin⟩ := hres
    have hk1 := k1
    simp only [Known_use_rename, List.any_eq_false] at hk1
    have hk1t := hk1 tree htree
    cases tree with
    | path b sub =>
      simp only [Bool.and_eq_true, beq_iff_eq, Bool.or_eq_true, List.contains_iff_mem] at hin
      obtain ⟨hb, hcase⟩ := hin
      have hnoren : (renameLeaves sub).contains (orig, name) = false := by
        simpa [hb] using hk1t
      rcases hcase with ⟨hno, hleaf | hg⟩ | hr
      · have huse : FileImportsNamed f.file g.crateName name = true := by
          simp only [FileImportsNamed, List.any_eq_true]
          exact ⟨_, htree, by simp [ImportsNamed, hb, hno, hleaf]⟩
        have := import_complete E lang targetOs pick hpick files arrivals hparse f h.fIn h.fMarker dA h.fVisit
          g.crateName name huse hcrate (by simpa using hmapN) h.referenced (by simpa using hlocN)
          (by
            intro j hj hjn
            rcases huniq j hj with h1 | h1
            · exact absurd hjn h1
            · exact h1)
          h.otherCrate g h.gIn rfl _ hgp (by rw [hno, ← h.declaredAs, ← hren]; exact hdef)
        rw [hren, h.declaredAs, ← hno]
        exact this
      · have : FileImportsGlob f.file g.crateName = true := by
          simp only [FileImportsGlob, List.any_eq_true]
          exact ⟨_, htree, by simp [ImportsGlob, hb, hg]⟩
        exact absurd this hglob
      · rw [List.contains_iff_mem.2 hr] at hnoren
        exact absurd hnoren (by simp)
    | name _ => simp at hin
    | rename _ _ => simp at hin
    | glob => simp at hin
    | group _ => simp at hin

/-! ## witnesses and non-vacuity -/

def wE : Ext := { U := UnicodeOps.ascii, parseType := fun _ => none }
def wLang : Generate.LangCfg := .typescript {}
def wPick : List ImportedType → Option ImportedType := fun l => l.head?
def tsAttr : Attr := ⟨.path [s%"typeshare"]⟩
def serdeRenameAttr (n : Str) : Attr := ⟨.list [s%"serde"] true [.nameValue [s%"rename"] (some (.str n))]⟩
def fld (n t : Str) : Field := ⟨[], some n, .path [] t []⟩
def mkSrc (crate : Str) (items : List Item) : Generate.SourceFile :=
  { crateName := crate, fileName := crate, path := crate ++ s%"/src/lib.rs",
    file := { attrs := [], marker := true, items := items } }
def visitOf (f : Generate.SourceFile) : ParsedData :=
  getOk (visitFile wE (runCtx wLang []) f.crateName f.fileName f.path f.file)
def arrivalsOf (files : List Generate.SourceFile) : List ParsedData :=
  getOk (Generate.parseAll wE (runCtx wLang []) wPick files)
/-- what the back end sees of the import clause of every crate -/
def importsOf (arrivals : List ParsedData) : List (Str × Option ScopedCrateTypes) :=
  (jobsWith id (collect arrivals)).map fun j => (j.1, j.2.2)

theorem not_imported_of_importsOf (arrivals : List ParsedData) (A B T : Str)
    (h : ∀ p ∈ importsOf arrivals, p.1 = A → p.2 = some []) : ¬ ImportedInJob arrivals A B T := by
  rintro ⟨j, hj, hA, imps, hji, tys, hm, _⟩
  have := h (j.1, j.2.2) (List.mem_map.2 ⟨j, hj, rfl⟩) hA
  rw [hji] at this
  simp only [Option.some.injEq] at this
  rw [this] at hm
  simp at hm

/-- crate `alpha`: `#[typeshare] struct Target { x: u8 }` -/
def srcAlpha : Generate.SourceFile :=
  mkSrc s%"alpha" [.struct [tsAttr] s%"Target" [] (.named [fld s%"x" s%"u8"])]

/-! ### in scope: the three `use` forms -/

/-- crate `beta`: `use alpha::Target; #[typeshare] struct Holder { t: Target }` -/
def srcBetaPlain : Generate.SourceFile :=
  mkSrc s%"beta" [.use (.path s%"alpha" (.name s%"Target")),
    .struct [tsAttr] s%"Holder" [] (.named [fld s%"t" s%"Target"])]
/-- `use alpha::{Other, Target};` -/
def srcBetaGroup : Generate.SourceFile :=
  mkSrc s%"beta" [.use (.path s%"alpha" (.group [.name s%"Other", .name s%"Target"])),
    .struct [tsAttr] s%"Holder" [] (.named [fld s%"t" s%"Target"])]
/-- `use alpha::*;` -/
def srcBetaGlob : Generate.SourceFile :=
  mkSrc s%"beta" [.use (.path s%"alpha" .glob),
    .struct [tsAttr] s%"Holder" [] (.named [fld s%"t" s%"Target"])]

theorem plain_parse : Generate.parseAll wE (runCtx wLang []) wPick [srcAlpha, srcBetaPlain] =
    .ok (arrivalsOf [srcAlpha, srcBetaPlain]) := eq_ok_getOk (by decide +kernel)
theorem plain_visit_beta :
    visitFile wE (runCtx wLang []) srcBetaPlain.crateName srcBetaPlain.fileName srcBetaPlain.path srcBetaPlain.file =
      .ok (visitOf srcBetaPlain) := eq_ok_getOk (by decide +kernel)
theorem plain_visit_alpha :
    visitFile wE (runCtx wLang []) srcAlpha.crateName srcAlpha.fileName srcAlpha.path srcAlpha.file =
      .ok (visitOf srcAlpha) := eq_ok_getOk (by decide +kernel)

/-- the hypotheses of `C14_imports_partial` are met by `use alpha::Target;` … -/
theorem plain_crossRef : CrossRef wE (runCtx wLang []) [srcAlpha, srcBetaPlain] srcBetaPlain srcAlpha
    (visitOf srcBetaPlain) (visitOf srcAlpha) s%"Target" s%"Target" ⟨s%"Target", s%"Target", false⟩ where
  fIn := by simp
  gIn := by simp
  fMarker := rfl
  gMarker := rfl
  fVisit := plain_visit_beta
  gVisit := plain_visit_alpha
  otherCrate := by decide
  resolves := by decide +kernel
  referenced := by decide +kernel
  notLocal := by decide +kernel
  declared := by decide +kernel
  declaredAs := rfl

/-- … so the theorem applies (and its conclusion is what the model computes) -/
example : ImportedInJob (arrivalsOf [srcAlpha, srcBetaPlain]) s%"beta" s%"alpha" s%"Target" :=
  C14_imports_partial wE wLang [] wPick validPick_head _ _ plain_parse _ _ _ _ _ _ _ plain_crossRef
    (by decide +kernel) (by decide +kernel) (by decide +kernel)

example : importsOf (arrivalsOf [srcAlpha, srcBetaPlain]) =
    [(s%"alpha", some []), (s%"beta", some [(s%"alpha", [s%"Target"])])] := by decide +kernel
example : importsOf (arrivalsOf [srcAlpha, srcBetaGroup]) =
    [(s%"alpha", some []), (s%"beta", some [(s%"alpha", [s%"Target"])])] := by decide +kernel
example : importsOf (arrivalsOf [srcAlpha, srcBetaGlob]) =
    [(s%"alpha", some []), (s%"beta", some [(s%"alpha", [s%"Target"])])] := by decide +kernel

example : FileImportsNamed srcBetaPlain.file s%"alpha" s%"Target" = true := by decide +kernel
example : FileImportsNamed srcBetaGroup.file s%"alpha" s%"Target" = true := by decide +kernel
example : FileImportsGlob srcBetaGlob.file s%"alpha" = true := by decide +kernel
example : CrateInScope wE.U s%"alpha" = true := by decide +kernel
/-- out of scope: well-known crates, `crate::`, upper-case "crates" -/
example : CrateInScope wE.U s%"std" = false ∧ CrateInScope wE.U s%"crate" = false ∧
    CrateInScope wE.U s%"Alpha" = false := by decide +kernel

/-! ### known class 1: `use alpha::Target as Target;` -/

def srcBetaAs : Generate.SourceFile :=
  mkSrc s%"beta" [.use (.path s%"alpha" (.rename s%"Target" s%"Target")),
    .struct [tsAttr] s%"Holder" [] (.named [fld s%"t" s%"Target"])]

theorem as_parse : Generate.parseAll wE (runCtx wLang []) wPick [srcAlpha, srcBetaAs] =
    .ok (arrivalsOf [srcAlpha, srcBetaAs]) := eq_ok_getOk (by decide +kernel)
theorem as_visit_beta :
    visitFile wE (runCtx wLang []) srcBetaAs.crateName srcBetaAs.fileName srcBetaAs.path srcBetaAs.file =
      .ok (visitOf srcBetaAs) := eq_ok_getOk (by decide +kernel)

theorem as_crossRef : CrossRef wE (runCtx wLang []) [srcAlpha, srcBetaAs] srcBetaAs srcAlpha
    (visitOf srcBetaAs) (visitOf srcAlpha) s%"Target" s%"Target" ⟨s%"Target", s%"Target", false⟩ where
  fIn := by simp
  gIn := by simp
  fMarker := rfl
  gMarker := rfl
  fVisit := as_visit_beta
  gVisit := plain_visit_alpha
  otherCrate := by decide
  resolves := by decide +kernel
  referenced := by decide +kernel
  notLocal := by decide +kernel
  declared := by decide +kernel
  declaredAs := rfl

/-- the model imports nothing into `beta` … -/
theorem as_imports : importsOf (arrivalsOf [srcAlpha, srcBetaAs]) = [(s%"alpha", some []), (s%"beta", some [])] := by
  decide +kernel

/-- … although everything else is in scope: **completeness fails on `use … as …`** -/
theorem witness_use_rename :
    CrossRef wE (runCtx wLang []) [srcAlpha, srcBetaAs] srcBetaAs srcAlpha (visitOf srcBetaAs) (visitOf srcAlpha)
      s%"Target" s%"Target" ⟨s%"Target", s%"Target", false⟩ ∧
    inScope wE wLang (visitOf srcBetaAs) s%"alpha" s%"Target" = true ∧
    Known_use_rename srcBetaAs.file s%"Target" s%"alpha" s%"Target" = true ∧
    Known_serde_rename srcBetaAs.file s%"alpha" ⟨s%"Target", s%"Target", false⟩ = false ∧
    ¬ ImportedInJob (arrivalsOf [srcAlpha, srcBetaAs]) s%"beta" s%"alpha" s%"Target" := by
  refine ⟨as_crossRef, by decide +kernel, by decide +kernel, by decide +kernel, ?_⟩
  apply not_imported_of_importsOf
  rw [as_imports]
  decide

/-! ### known class 2: `#[serde(rename = "Renamed")] struct Target`, `use alpha::Target;` -/

def srcAlphaRenamed : Generate.SourceFile :=
  mkSrc s%"alpha" [.struct [tsAttr, serdeRenameAttr s%"Renamed"] s%"Target" [] (.named [fld s%"x" s%"u8"])]

theorem ren_parse : Generate.parseAll wE (runCtx wLang []) wPick [srcAlphaRenamed, srcBetaPlain] =
    .ok (arrivalsOf [srcAlphaRenamed, srcBetaPlain]) := eq_ok_getOk (by decide +kernel)
theorem ren_visit_alpha :
    visitFile wE (runCtx wLang []) srcAlphaRenamed.crateName srcAlphaRenamed.fileName srcAlphaRenamed.path
      srcAlphaRenamed.file = .ok (visitOf srcAlphaRenamed) := eq_ok_getOk (by decide +kernel)

theorem ren_crossRef : CrossRef wE (runCtx wLang []) [srcAlphaRenamed, srcBetaPlain] srcBetaPlain srcAlphaRenamed
    (visitOf srcBetaPlain) (visitOf srcAlphaRenamed) s%"Target" s%"Target" ⟨s%"Target", s%"Renamed", true⟩ where
  fIn := by simp
  gIn := by simp
  fMarker := rfl
  gMarker := rfl
  fVisit := plain_visit_beta
  gVisit := ren_visit_alpha
  otherCrate := by decide
  resolves := by decide +kernel
  referenced := by decide +kernel
  notLocal := by decide +kernel
  declared := by decide +kernel
  declaredAs := rfl

theorem ren_imports : importsOf (arrivalsOf [srcAlphaRenamed, srcBetaPlain]) =
    [(s%"alpha", some []), (s%"beta", some [])] := by decide +kernel

/-- the reference itself *is* rewritten to the output name by `reconcile_aliases` (so `beta`'s output mentions
`Renamed` without importing it) -/
example : (jobsWith id (collect (arrivalsOf [srcAlphaRenamed, srcBetaPlain]))).map
    (fun j => j.2.1.structs.map fun s => s.fields.map fun fl => fl.ty.allIds) =
    [[[[s%"u8"]]], [[[s%"Renamed"]]]] := by decide +kernel

/-- **completeness fails on a serde-renamed type imported by name** -/
theorem witness_serde_rename :
    CrossRef wE (runCtx wLang []) [srcAlphaRenamed, srcBetaPlain] srcBetaPlain srcAlphaRenamed
      (visitOf srcBetaPlain) (visitOf srcAlphaRenamed) s%"Target" s%"Target" ⟨s%"Target", s%"Renamed", true⟩ ∧
    inScope wE wLang (visitOf srcBetaPlain) s%"alpha" s%"Target" = true ∧
    Known_use_rename srcBetaPlain.file s%"Target" s%"alpha" s%"Target" = false ∧
    Known_serde_rename srcBetaPlain.file s%"alpha" ⟨s%"Target", s%"Renamed", true⟩ = true ∧
    ¬ ImportedInJob (arrivalsOf [srcAlphaRenamed, srcBetaPlain]) s%"beta" s%"alpha" s%"Renamed" := by
  refine ⟨ren_crossRef, by decide +kernel, by decide +kernel, by decide +kernel, ?_⟩
  apply not_imported_of_importsOf
  rw [ren_imports]
  decide

/-- with a glob the renamed type *is* imported (the glob branch copies the crate's output names) -/
example : importsOf (arrivalsOf [srcAlphaRenamed, srcBetaGlob]) =
    [(s%"alpha", some []), (s%"beta", some [(s%"alpha", [s%"Renamed"])])] := by decide +kernel

/-- **the statement at full strength is false on the model** -/
theorem C14_imports_not_full : ¬ C14_imports_full := by
  intro h
  exact witness_use_rename.2.2.2.2
    (h wE wLang [] wPick _ _ validPick_head as_parse _ _ _ _ _ _ _ as_crossRef)

/-! ### `used_imports` alone: the three branches on a concrete map -/

def exAll : List (Str × List Str) := [(s%"alpha", [s%"A1", s%"A2"]), (s%"gamma", [s%"G"])]
def exD : ParsedData := { crateName := s%"beta" }
/-- named, glob, fallback (crate `zeta` is not part of the run; `G` is found in `gamma`), own crate ignored -/
example : usedImports exD exAll [⟨s%"alpha", s%"A2"⟩, ⟨s%"zeta", s%"G"⟩, ⟨s%"beta", s%"B"⟩]
    (Generate.firstOther exAll s%"beta") = [(s%"alpha", [s%"A2"]), (s%"gamma", [s%"G"])] := by decide +kernel
example : usedImports exD exAll [⟨s%"alpha", s%"*"⟩] (Generate.firstOther exAll s%"beta") =
    [(s%"alpha", [s%"A1", s%"A2"])] := by decide +kernel
example : takesFallback exAll ⟨s%"zeta", s%"G"⟩ = true := by decide +kernel

/-! ### the glob form through `C14_imports_partial`, with the serde-renamed crate -/

theorem glob_parse : Generate.parseAll wE (runCtx wLang []) wPick [srcAlphaRenamed, srcBetaGlob] =
    .ok (arrivalsOf [srcAlphaRenamed, srcBetaGlob]) := eq_ok_getOk (by decide +kernel)
theorem glob_visit_beta :
    visitFile wE (runCtx wLang []) srcBetaGlob.crateName srcBetaGlob.fileName srcBetaGlob.path srcBetaGlob.file =
      .ok (visitOf srcBetaGlob) := eq_ok_getOk (by decide +kernel)

theorem glob_crossRef : CrossRef wE (runCtx wLang []) [srcAlphaRenamed, srcBetaGlob] srcBetaGlob srcAlphaRenamed
    (visitOf srcBetaGlob) (visitOf srcAlphaRenamed) s%"Target" s%"Target" ⟨s%"Target", s%"Renamed", true⟩ where
  fIn := by simp
  gIn := by simp
  fMarker := rfl
  gMarker := rfl
  fVisit := glob_visit_beta
  gVisit := ren_visit_alpha
  otherCrate := by decide
  resolves := by decide +kernel
  referenced := by decide +kernel
  notLocal := by decide +kernel
  declared := by decide +kernel
  declaredAs := rfl

/-- `use alpha::*;` with `alpha`'s `Target` serde-renamed: in scope, in neither known class, and imported
under its output name -/
example : ImportedInJob (arrivalsOf [srcAlphaRenamed, srcBetaGlob]) s%"beta" s%"alpha" s%"Renamed" :=
  C14_imports_partial wE wLang [] wPick validPick_head _ _ glob_parse _ _ _ _ _ _ _ glob_crossRef
    (by decide +kernel) (by decide +kernel) (by decide +kernel)

/-! ### the import line in the generated text -/

def outsOf : Outcome Generate.RunResult → List (Str × Str)
  | .ok (.outputs o) => o
  | _ => []
def isOutputs : Outcome Generate.RunResult → Bool
  | .ok (.outputs _) => true
  | _ => false
theorem eq_outputs {r : Outcome Generate.RunResult} (h : isOutputs r = true) : r = .ok (.outputs (outsOf r)) := by
  cases r with
  | ok x => cases x <;> simp_all [isOutputs, outsOf]
  | err e => simp [isOutputs] at h
  | panic s => simp [isOutputs] at h

def wKt : Lang.Kotlin.Cfg := { package := s%"com.example" }

theorem kt_parse : Generate.parseAll wE (runCtx (.kotlin wKt) []) wPick [srcAlpha, srcBetaPlain] =
    .ok (arrivalsOf [srcAlpha, srcBetaPlain]) := eq_ok_getOk (by decide +kernel)

/-- the two jobs of the run `[srcAlpha, srcBetaPlain]` (the same for every language without type mappings) -/
def exJobs : List Job := jobsWith id (collect (arrivalsOf [srcAlpha, srcBetaPlain]))
def dfltJob : Job := (default, default, none)

/- `generate_types` orders the items with `topsort`, whose DFS is defined by well-founded recursion and is not
evaluated by the kernel; both files hold one item, for which `C12L.topsort_single` gives the order. -/
theorem exJobs_order0 : Pipeline.generateOrder (exJobs.headD dfltJob).2.1 =
    some [(C12L.itemsOf (exJobs.headD dfltJob).2.1).headD default] :=
  generateOrder_single _ _ (list_len1 _ _ (by decide +kernel)) (by decide +kernel)
theorem exJobs_order1 : Pipeline.generateOrder (exJobs.tail.headD dfltJob).2.1 =
    some [(C12L.itemsOf (exJobs.tail.headD dfltJob).2.1).headD default] :=
  generateOrder_single _ _ (list_len1 _ _ (by decide +kernel)) (by decide +kernel)
theorem exJobs_noErrors :
    (allErrors (reconcile (collect (arrivalsOf [srcAlpha, srcBetaPlain])))).isEmpty = true := by decide +kernel

/-- the Kotlin run succeeds and writes these two files -/
theorem kt_run : isOutputs (Generate.run wE (.kotlin wKt) true [] wPick [srcAlpha, srcBetaPlain]) = true ∧
    outsOf (Generate.run wE (.kotlin wKt) true [] wPick [srcAlpha, srcBetaPlain]) =
    [(s%"alpha", s%"package com.example.alpha\n\nimport kotlinx.serialization.Serializable\nimport kotlinx.serialization.SerialName\n\n\n@Serializable\ndata class Target (\n\tval x: UByte\n)\n\n"),
     (s%"beta", s%"package com.example.beta\n\nimport kotlinx.serialization.Serializable\nimport kotlinx.serialization.SerialName\n\nimport com.example.alpha.Target\n\n@Serializable\ndata class Holder (\n\tval t: Target\n)\n\n")] := by
  have hp : Generate.parseAll wE
      { ignoredTypes := Generate.ignoredTypes (.kotlin wKt), multiFile := true, targetOs := [] }
      wPick [srcAlpha, srcBetaPlain] = .ok (arrivalsOf [srcAlpha, srcBetaPlain]) := kt_parse
  have h0 := exJobs_order0
  have h1 := exJobs_order1
  unfold exJobs at h0 h1
  rw [run_multi_eq, hp]
  simp only [Outcome.bind, exJobs_noErrors, Bool.not_true, Bool.false_eq_true, if_false, Lang.Kotlin.generateAll]
  rw [list_len2 (jobsWith id (collect (arrivalsOf [srcAlpha, srcBetaPlain]))) dfltJob (by decide +kernel)]
  simp only [kt_generateFrom_cons, Lang.Kotlin.generate, h0, h1]
  constructor <;> decide +kernel

/-- the TypeScript run succeeds and writes these two files -/
theorem ts_run : isOutputs (Generate.run wE wLang true [] wPick [srcAlpha, srcBetaPlain]) = true ∧
    outsOf (Generate.run wE wLang true [] wPick [srcAlpha, srcBetaPlain]) =
    [(s%"alpha", s%"\nexport interface Target {\n\tx: number;\n}\n\n"),
     (s%"beta", s%"import { Target } from \"./alpha\";\n\nexport interface Holder {\n\tt: Target;\n}\n\n")] := by
  have hp : Generate.parseAll wE
      { ignoredTypes := Generate.ignoredTypes (.typescript {}), multiFile := true, targetOs := [] }
      wPick [srcAlpha, srcBetaPlain] = .ok (arrivalsOf [srcAlpha, srcBetaPlain]) := plain_parse
  have h0 := exJobs_order0
  have h1 := exJobs_order1
  unfold exJobs at h0 h1
  unfold wLang
  rw [run_multi_eq, hp]
  simp only [Outcome.bind, exJobs_noErrors, Bool.not_true, Bool.false_eq_true, if_false,
    Lang.TypeScript.generateAll]
  rw [list_len2 (jobsWith id (collect (arrivalsOf [srcAlpha, srcBetaPlain]))) dfltJob (by decide +kernel)]
  simp only [ts_generateFrom_cons, Lang.TypeScript.generate, h0, h1]
  constructor <;> decide +kernel

/-- `import_line_kotlin` applies to the two-crate run: `beta`'s file contains `import com.example.alpha.Target` -/
example : ∃ text, (s%"beta", text) ∈ outsOf (Generate.run wE (.kotlin wKt) true [] wPick [srcAlpha, srcBetaPlain]) ∧
    s%"import com.example.alpha.Target\n" <:+: text :=
  import_line_kotlin wE wKt [] wPick [srcAlpha, srcBetaPlain] _ _ kt_parse (eq_outputs kt_run.1)
    s%"beta" s%"alpha" s%"Target"
    (C14_imports_partial wE (.kotlin wKt) [] wPick validPick_head _ _ kt_parse _ _ _ _ _ _ _ plain_crossRef
      (by decide +kernel) (by decide +kernel) (by decide +kernel))

/-- `import_line_typescript` applies: `beta`'s file contains `import { …, Target, … } from "./alpha";` -/
example : ∃ text, (s%"beta", text) ∈ outsOf (Generate.run wE wLang true [] wPick [srcAlpha, srcBetaPlain]) ∧
    ∃ tys, s%"Target" ∈ tys ∧ tsImportLine s%"alpha" tys <:+: text :=
  import_line_typescript wE {} [] wPick [srcAlpha, srcBetaPlain] _ _ plain_parse (eq_outputs ts_run.1)
    s%"beta" s%"alpha" s%"Target"
    (C14_imports_partial wE wLang [] wPick validPick_head _ _ plain_parse _ _ _ _ _ _ _ plain_crossRef
      (by decide +kernel) (by decide +kernel) (by decide +kernel))

end TsV.C14
