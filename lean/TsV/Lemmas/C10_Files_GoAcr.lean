import TsV.Lemmas.C10_Files_Go
import TsV.Lemmas.C07_Backends_Go
/-!
# C10, Go with a non-empty `uppercase_acronyms`

`convert_acronyms_to_uppercase` splices the upper-cased acronym into the name at the positions where the
Pascal-cased acronym occurs.  When every configured acronym is an identifier fragment (`[A-Za-z0-9_]*`)
and the Unicode parameter is ASCII-correct, the result is a *variant* of the name (`VarStr`): same
length, and at every position either the same character or an identifier character in place of an
identifier character.  Identifier characters are inert for the lexer in every state, so a variant of a
neutral piece is a neutral piece (`nb_var`), and the declaration-level lemmas of `C10_Go.lean` carry over.
-/
namespace TsV.C10Files.GoAcr
open TsV TsV.Lang TsV.C10Lex TsV.Lang.Go TsV.C10Go TsV.C10Files TsV.C07BE.Go

/-! ## variants -/

def Var (r n : Char) : Prop := r = n ∨ (identChar r = true ∧ identChar n = true)

def VarStr : Str → Str → Prop
  | [], [] => True
  | r :: rs, n :: ns => Var r n ∧ VarStr rs ns
  | _, _ => False

theorem VarStr.refl : ∀ s : Str, VarStr s s
  | [] => trivial
  | _ :: t => ⟨.inl rfl, VarStr.refl t⟩

theorem VarStr.append : ∀ {a c b d : Str}, VarStr a c → VarStr b d → VarStr (a ++ b) (c ++ d)
  | [], [], _, _, _, h => h
  | _ :: _, [], _, _, h, _ => h.elim
  | [], _ :: _, _, _, h, _ => h.elim
  | _ :: _, _ :: _, _, _, h1, h2 => ⟨h1.1, VarStr.append h1.2 h2⟩

theorem VarStr.split : ∀ {a' a b' b : Str}, a'.length = a.length → VarStr (a' ++ b') (a ++ b) → VarStr a' a ∧ VarStr b' b
  | [], [], _, _, _, h => ⟨trivial, h⟩
  | _ :: _, [], _, _, hl, _ => by simp at hl
  | [], _ :: _, _, _, hl, _ => by simp at hl
  | x :: a', y :: a, b', b, hl, h => by
    have := VarStr.split (a' := a') (a := a) (b' := b') (b := b) (by simpa using hl) h.2
    exact ⟨⟨h.1, this.1⟩, this.2⟩

theorem VarStr.ident : ∀ {r p : Str}, IdentStr r → IdentStr p → r.length = p.length → VarStr r p
  | [], [], _, _, _ => trivial
  | _ :: _, [], _, _, hl => by simp at hl
  | [], _ :: _, _, _, hl => by simp at hl
  | x :: r, y :: p, hr, hp, hl =>
    ⟨.inr ⟨hr x (by simp), hp y (by simp)⟩,
     VarStr.ident (fun c hc => hr c (by simp [hc])) (fun c hc => hp c (by simp [hc])) (by simpa using hl)⟩

theorem VarStr.length : ∀ {r n : Str}, VarStr r n → r.length = n.length
  | [], [], _ => rfl
  | _ :: _, [], h => h.elim
  | [], _ :: _, h => h.elim
  | _ :: r, _ :: n, h => by simp [VarStr.length h.2]

/-- what a property of characters needs to be inherited by variants -/
theorem VarStr.all {P : Char → Prop} (hP : ∀ c, identChar c = true → P c) :
    ∀ {r n : Str}, VarStr r n → (∀ c ∈ n, P c) → ∀ c ∈ r, P c
  | [], [], _, _ => by simp
  | _ :: _, [], h, _ => h.elim
  | [], _ :: _, h, _ => h.elim
  | x :: r, y :: n, h, hn => by
    intro c hc
    simp only [List.mem_cons] at hc
    rcases hc with rfl | hc
    · rcases h.1 with e | e
      · rw [e]; exact hn y (by simp)
      · exact hP _ e.1
    · exact VarStr.all hP h.2 (fun d hd => hn d (by simp [hd])) c hc

theorem VarStr.identStr {r n : Str} (h : VarStr r n) (hn : IdentStr n) : IdentStr r :=
  VarStr.all (P := fun c => identChar c = true) (fun _ h => h) h hn

theorem VarStr.keyStr {r n : Str} (h : VarStr r n) (hn : KeyStr n) : KeyStr r :=
  VarStr.all (P := fun c => keyChar c = true) (fun c h => by simp [keyChar, h]) h hn

/-! ## the acronym pass yields a variant -/

theorem length_of_lay {a b : Str} (h : lay a = lay b) : a.length = b.length := by
  have := congrArg List.length h
  simpa [lay] using this

theorem asciiStr_of_ident {s : Str} (h : IdentStr s) : asciiStr s = true := by
  simp only [asciiStr, List.all_eq_true]
  intro c hc
  simpa [Str.isAscii] using identChar_ascii c (h c hc)

theorem replace_step' (name res pat rep pre post : Str) (hname : name = pre ++ pat ++ post)
    (hpat : IdentStr pat) (hrep : IdentStr rep) (hlen : rep.length = pat.length) (hres : lay res = lay name)
    (hv : VarStr res name) :
    ∃ r, replaceRange res (utf8Len pre) (utf8Len pre + pat.length) rep = .ok r ∧ lay r = lay name ∧ VarStr r name := by
  have hpa := asciiStr_of_ident hpat
  have hlay : lay rep = lay pat := by rw [lay_of_ascii hpa, lay_of_ascii (asciiStr_of_ident hrep), hlen]
  subst hname
  rw [List.append_assoc] at hres hv
  obtain ⟨pre', rest', hr, hpre, hrest⟩ := lay_split pre (pat ++ post) res hres
  obtain ⟨mid', post', hr2, hmid, hpost⟩ := lay_split pat post rest' hrest
  subst hr hr2
  have e1 : utf8Len pre = utf8Len pre' := (utf8Len_of_lay hpre).symm
  have e2 : pat.length = utf8Len mid' := by rw [utf8Len_of_lay hmid, utf8Len_of_ascii hpa]
  obtain ⟨v1, v2⟩ := VarStr.split (length_of_lay hpre) hv
  obtain ⟨_, v3⟩ := VarStr.split (length_of_lay hmid) v2
  refine ⟨pre' ++ rep ++ post', ?_, ?_, ?_⟩
  · rw [e1, e2, ← List.append_assoc]; exact replaceRange_ok _ _ _ _
  · simp only [lay_append, hpre, hlay, hpost]
  · exact VarStr.append (VarStr.append v1 (VarStr.ident hrep hpat hlen)) v3

theorem foldlM_acronym' (U : UnicodeOps) (name pat rep : Str) (hpat : IdentStr pat) (hrep : IdentStr rep)
    (hlen : rep.length = pat.length) :
    ∀ (is : List Nat), (∀ i ∈ is, ∃ pre post, name = pre ++ pat ++ post ∧ i = utf8Len pre) →
    ∀ res : Str, lay res = lay name → VarStr res name →
    ∃ r, is.foldlM (init := res) (fun res i =>
        if ((name[i + pat.length]?).map fun c => !U.isLower c).getD true then
          replaceRange res i (i + pat.length) rep
        else Outcome.ok res) = .ok r ∧ lay r = lay name ∧ VarStr r name
  | [], _, res, hres, hv => ⟨res, rfl, hres, hv⟩
  | i :: is, his, res, hres, hv => by
    obtain ⟨pre, post, hname, hi⟩ := his i (by simp)
    have htail := foldlM_acronym' U name pat rep hpat hrep hlen is (fun j hj => his j (by simp [hj]))
    simp only [List.foldlM_cons]
    split
    · obtain ⟨r, hr, hlay, hvr⟩ := replace_step' name res pat rep pre post hname hpat hrep hlen hres hv
      rw [hi, hr]
      exact htail r hlay hvr
    · exact htail res hres hv

/-- the acronyms are identifier fragments -/
def AcronymsOk (cfg : Cfg) : Prop := ∀ a ∈ cfg.uppercaseAcronyms, IdentStr a
instance (cfg : Cfg) : Decidable (AcronymsOk cfg) := by unfold AcronymsOk; infer_instance

theorem upperStr_length (U : UnicodeOps) (hU : U.AsciiCorrect) {s : Str} (h : IdentStr s) :
    (U.upperStr s).length = s.length := by
  rw [RenameLemmas.upperStr_ascii U hU s fun c hc => identChar_ascii c (h c hc)]
  simp [Str.toAsciiUpper]

theorem applyAcronym' (U : UnicodeOps) (hU : U.AsciiCorrect) (name a : Str) (ha : IdentStr a) (res : Str)
    (hres : lay res = lay name) (hv : VarStr res name) :
    ∃ r, applyAcronym U name res a = .ok r ∧ lay r = lay name ∧ VarStr r name := by
  have hpat := toPascal_ident (U := U) ha
  unfold applyAcronym
  exact foldlM_acronym' U name _ _ hpat (upperStr_ident U hU hpat) (upperStr_length U hU hpat) _
    (fun i hi => mem_matchIndices name _ i hi) res hres hv

theorem convertAcronyms' (U : UnicodeOps) (hU : U.AsciiCorrect) (name : Str) : ∀ (acronyms : List Str),
    (∀ a ∈ acronyms, IdentStr a) → ∀ res : Str, lay res = lay name → VarStr res name →
    ∃ r, acronyms.foldlM (init := res) (applyAcronym U name) = .ok r ∧ lay r = lay name ∧ VarStr r name
  | [], _, res, hres, hv => ⟨res, rfl, hres, hv⟩
  | a :: as, h, res, hres, hv => by
    obtain ⟨r, hr, hlay, hvr⟩ := applyAcronym' U hU name a (h a (by simp)) res hres hv
    simp only [List.foldlM_cons, hr]
    exact convertAcronyms' U hU name as (fun b hb => h b (by simp [hb])) r hlay hvr

/-- **`acronyms_to_uppercase` returns a variant of its argument** -/
theorem acr_var (U : UnicodeOps) (hU : U.AsciiCorrect) {cfg : Cfg} (hA : AcronymsOk cfg) (name r : Str)
    (h : acr U cfg name = .ok r) : VarStr r name := by
  obtain ⟨r', hr', _, hv⟩ := convertAcronyms' U hU name cfg.uppercaseAcronyms hA name rfl (VarStr.refl name)
  unfold acr convertAcronyms at h
  rw [hr'] at h
  cases h
  exact hv

/-! ## identifier characters are inert for the lexer -/

/-- the modes a run from code state can reach: literals are delimited by quote characters -/
def GoodMode : Mode → Prop
  | .str q | .strEsc q => isQuote q = true
  | _ => True

theorem identChar_ne {c : Char} (h : identChar c = true) (d : Char) (hd : identChar d = false) : c ≠ d := by
  intro e; subst e; rw [h] at hd; cases hd

theorem step_ident (cfg : LexCfg) (a : St) (ha : GoodMode a.mode) (c d : Char) (hc : identChar c = true)
    (hd : identChar d = true) : step cfg a c = step cfg a d := by
  have n1 := fun x hx => identChar_ne hc x hx
  have n2 := fun x hx => identChar_ne hd x hx
  cases a with | mk m stk =>
  cases m with
  | code => simp only [step, codeStep_plain (identChar_plain cfg c hc), codeStep_plain (identChar_plain cfg d hd)]
  | slash =>
    simp only [step, n1 '/' (by decide), n2 '/' (by decide), n1 '*' (by decide), n2 '*' (by decide), if_false,
      codeStep_plain (identChar_plain cfg c hc), codeStep_plain (identChar_plain cfg d hd)]
  | line => simp only [step, n1 '\n' (by decide), n2 '\n' (by decide), if_false]
  | block => simp only [step, n1 '*' (by decide), n2 '*' (by decide), if_false]
  | blockStar => simp only [step, n1 '/' (by decide), n2 '/' (by decide), n1 '*' (by decide), n2 '*' (by decide), if_false]
  | str q =>
    have hq : identChar q = false := by
      simp only [GoodMode, isQuote, Bool.or_eq_true, beq_iff_eq] at ha
      rcases ha with rfl | rfl <;> decide
    simp only [step, n1 '\\' (by decide), n2 '\\' (by decide), n1 q hq, n2 q hq, n1 '\n' (by decide),
      n2 '\n' (by decide), if_false]
  | strEsc q => simp only [step, n1 '\n' (by decide), n2 '\n' (by decide), if_false]
  | raw => simp only [step, n1 '`' (by decide), n2 '`' (by decide), if_false]

theorem codeStep_good {cfg : LexCfg} {stk : List Char} {c : Char} {b : St} (h : codeStep cfg stk c = some b) :
    GoodMode b.mode := by
  unfold codeStep at h
  repeat' split at h
  all_goals first | cases h | skip
  all_goals first | trivial | (simp only [GoodMode]; assumption)

theorem step_good {cfg : LexCfg} {a : St} {c : Char} {b : St} (ha : GoodMode a.mode) (h : step cfg a c = some b) :
    GoodMode b.mode := by
  cases a with | mk m stk =>
  cases m <;> simp only [step] at h
  case code => exact codeStep_good h
  case slash =>
    split at h
    · cases h; trivial
    split at h
    · cases h; trivial
    · exact codeStep_good h
  all_goals
    repeat' split at h
    all_goals first | cases h | skip
    all_goals first | trivial | exact ha

theorem scan_var (cfg : LexCfg) : ∀ (x y : Str) (a : St), GoodMode a.mode → VarStr x y → scan cfg a x = scan cfg a y
  | [], [], _, _, _ => rfl
  | _ :: _, [], _, _, h => h.elim
  | [], _ :: _, _, _, h => h.elim
  | c :: x, d :: y, a, ha, h => by
    have hs : step cfg a c = step cfg a d := by
      rcases h.1 with e | e
      · rw [e]
      · exact step_ident cfg a ha c d e.1 e.2
    simp only [scan, hs]
    cases hd : step cfg a d with
    | none => rfl
    | some a' => exact scan_var cfg x y a' (step_good ha hd) h.2

/-- **a variant of a neutral piece is a neutral piece** -/
theorem nb_var {cfg : LexCfg} {x y : Str} (h : VarStr x y) (hy : NB cfg y) : NB cfg x := by
  intro stk
  have := hy stk
  unfold Run at *
  rw [scan_var cfg x y ⟨.code, stk⟩ trivial h]
  exact this


/-! ## the declaration-level lemmas of `C10_Go.lean`, with an acronym list -/

/-- the Go configuration with acronyms: every acronym an identifier fragment, every type mapping balanced -/
structure CfgOk' (cfg : Cfg) : Prop where
  acronyms : AcronymsOk cfg
  maps : ∀ p ∈ cfg.typeMappings, wellBracketed G p.2 = true

instance (cfg : Cfg) : Decidable (CfgOk' cfg) :=
  decidable_of_iff (AcronymsOk cfg ∧ ∀ p ∈ cfg.typeMappings, wellBracketed G p.2 = true)
    ⟨fun ⟨a, b⟩ => ⟨a, b⟩, fun h => ⟨h.acronyms, h.maps⟩⟩

theorem CfgOk'.mapped {cfg : Cfg} (H : CfgOk' cfg) {k v : Str} (h : mapGet cfg.typeMappings k = some v) : NB G v := by
  obtain ⟨p, hp, rfl⟩ := mapGet_mem h
  exact nb_of_wb (H.maps p hp)

theorem special_ok' {cfg : Cfg} (H : CfgOk' cfg) (t : RustType) (st : Imports)
    (k : Imports → Outcome (Str × Imports)) (s : Str) (st' : Imports)
    (h : special cfg t st k = .ok (s, st')) : NB G s ∨ ∃ st1, k st1 = .ok (s, st') := by
  unfold special at h
  split at h
  · rename_i m hm; cases h; exact .inl (H.mapped hm)
  · exact .inr ⟨st, h⟩

mutual
  theorem formatType_nb' {cfg : Cfg} (H : CfgOk' cfg) :
      ∀ (t : RustType) (st : Imports) (s : Str) (st' : Imports), TypeOk t → formatType cfg t st = .ok (s, st') → NB G s
    | .simple id, st, s, st', ht, h => by
      simp only [formatType] at h; cases h
      cases hm : mapGet cfg.typeMappings id with
      | some m => simpa [hm] using H.mapped hm
      | none => simpa [hm] using (KeyStr.nb (ht id (by simp [typeNames])))
    | .generic id ps, st, s, st', ht, h => by
      simp only [formatType] at h
      split at h
      · rename_i m hm; cases h; exact H.mapped hm
      · rename_i hnone
        obtain ⟨strs, st1, hs, h⟩ := obind_pair_ok h
        cases h
        have hall := formatTypes_nb' H ps st strs st1 (fun n hn => ht n (by simp [typeNames, hn])) hs
        refine NB.append ?_ ?_
        · simpa [hnone] using (KeyStr.nb (ht id (by simp [typeNames])))
        · split
          · exact NB.nil
          · exact bracket_nb strs hall
    | .vec r, st, s, st', ht, h => by
      simp only [formatType] at h
      rcases special_ok' H _ st _ s st' h with hn | ⟨st1, hk⟩
      · exact hn
      · obtain ⟨a, b, ha, hf⟩ := obind_pair_ok hk
        cases hf
        refine NB.append ?_ (formatType_nb' H r st1 a _ (by simpa [TypeOk, typeNames] using ht) ha)
        nb_lit
    | .slice r, st, s, st', ht, h => by
      simp only [formatType] at h
      rcases special_ok' H _ st _ s st' h with hn | ⟨st1, hk⟩
      · exact hn
      · obtain ⟨a, b, ha, hf⟩ := obind_pair_ok hk
        cases hf
        refine NB.append ?_ (formatType_nb' H r st1 a _ (by simpa [TypeOk, typeNames] using ht) ha)
        nb_lit
    | .array r n, st, s, st', ht, h => by
      simp only [formatType] at h
      rcases special_ok' H _ st _ s st' h with hn | ⟨st1, hk⟩
      · exact hn
      · obtain ⟨a, b, ha, hf⟩ := obind_pair_ok hk
        cases hf
        exact (NB.square (Plain.nb (natToStr_plain G n))).append
          (formatType_nb' H r st1 a _ (by simpa [TypeOk, typeNames] using ht) ha)
    | .option r, st, s, st', ht, h => by
      simp only [formatType] at h
      rcases special_ok' H _ st _ s st' h with hn | ⟨st1, hk⟩
      · exact hn
      · obtain ⟨a, b, ha, hf⟩ := obind_pair_ok hk
        cases hf
        refine NB.append ?_ (formatType_nb' H r st1 a _ (by simpa [TypeOk, typeNames] using ht) ha)
        split
        · exact NB.nil
        · nb_lit
    | .hashMap k v, st, s, st', ht, h => by
      simp only [formatType] at h
      rcases special_ok' H _ st _ s st' h with hn | ⟨st1, hk⟩
      · exact hn
      · obtain ⟨ks, st2, hks, hk⟩ := obind_pair_ok hk
        obtain ⟨vs, st3, hvs, hk⟩ := obind_pair_ok hk
        cases hk
        have hkn := formatType_nb' H k st1 ks st2 (fun n hn => ht n (by simp [typeNames, hn])) hks
        have hvn := formatType_nb' H v st2 vs _ (fun n hn => ht n (by simp [typeNames, hn])) hvs
        intro stk
        have r1 : Run G s%"map[" ⟨.code, stk⟩ ⟨.code, '[' :: stk⟩ := rfl
        have r3 : Run G s%"]" ⟨.code, '[' :: stk⟩ ⟨.code, stk⟩ := rfl
        exact ((r1.append (hkn _)).append r3).append (hvn _)
    | .prim p, st, s, st', _, h => by
      simp only [formatType] at h
      rcases special_ok' H _ st _ s st' h with hn | ⟨st1, hk⟩
      · exact hn
      · have := primType_nb p
        split at hk <;> (cases hk; simp_all)
  theorem formatTypes_nb' {cfg : Cfg} (H : CfgOk' cfg) :
      ∀ (ts : List RustType) (st : Imports) (ss : List Str) (st' : Imports), TypesOk ts →
        formatTypes cfg ts st = .ok (ss, st') → ∀ s ∈ ss, NB G s
    | [], st, ss, st', _, h => by simp only [formatTypes] at h; cases h; simp
    | t :: ts, st, ss, st', ht, h => by
      simp only [formatTypes] at h
      obtain ⟨a, st1, ha, h⟩ := obind_pair_ok h
      obtain ⟨as, st2, has, h⟩ := obind_pair_ok h
      cases h
      intro s hs
      simp only [List.mem_cons] at hs
      rcases hs with rfl | hs
      · exact formatType_nb' H t st _ st1 (fun n hn => ht n (by simp [typeNamesList, hn])) ha
      · exact formatTypes_nb' H ts st1 as _ (fun n hn => ht n (by simp [typeNamesList, hn])) has s hs
end

section withAcronyms
variable (U : UnicodeOps) (hU : U.AsciiCorrect) {cfg : Cfg} (H : CfgOk' cfg)
include hU H

theorem acr_nb {name r : Str} (hn : NB G name) (h : acr U cfg name = .ok r) : NB G r :=
  nb_var (acr_var U hU H.acronyms name r h) hn

theorem acr_ident {name r : Str} (hn : IdentStr name) (h : acr U cfg name = .ok r) : IdentStr r :=
  (acr_var U hU H.acronyms name r h).identStr hn

theorem acr_key {name r : Str} (hn : KeyStr name) (h : acr U cfg name = .ok r) : KeyStr r :=
  (acr_var U hU H.acronyms name r h).keyStr hn

theorem fieldFacts_ok' (f : RustField) (hf : FieldOk f) (st : Imports) (g : GoField) (st' : Imports)
    (h : fieldFacts U cfg f st = .ok (g, st')) : GoFieldOk g := by
  unfold fieldFacts at h
  obtain ⟨typeName, st1, hty, h⟩ := obind_pair_ok h
  obtain ⟨goType, hgt, h⟩ := obind_ok h
  obtain ⟨name, hname, h⟩ := obind_ok h
  cases h
  have htn : NB G typeName := by
    split at hty
    · rename_i t ht; cases hty; exact nb_of_wb (hf.override _ ht)
    · exact formatType_nb' H f.ty st typeName _ hf.ty hty
  refine ⟨hf.docs, IdentStr.nb (acr_ident U hU H (toPascal_ident hf.original) hname), ?_, ?_⟩
  · refine NB.append ?_ (acr_nb U hU H htn hgt)
    split
    · nb_lit
    · exact NB.nil
  · rw [debugInner_key hf.key]; exact KeyStr.no_tick hf.key

theorem fieldsFacts_ok' : ∀ (fs : List RustField) (st : Imports) (gs : List GoField) (st' : Imports),
    (∀ f ∈ fs, FieldOk f) → fieldsFacts U cfg fs st = .ok (gs, st') → ∀ g ∈ gs, GoFieldOk g
  | [], st, gs, st', _, h => by simp only [fieldsFacts] at h; cases h; simp
  | f :: fs, st, gs, st', hf, h => by
    simp only [fieldsFacts] at h
    obtain ⟨g, st1, hg, h⟩ := obind_pair_ok h
    obtain ⟨rest, st2, hrest, h⟩ := obind_pair_ok h
    cases h
    intro x hx
    simp only [List.mem_cons] at hx
    rcases hx with rfl | hx
    · exact fieldFacts_ok' U hU H f (hf f (by simp)) st _ st1 hg
    · exact fieldsFacts_ok' fs st1 rest _ (fun y hy => hf y (by simp [hy])) hrest x hx

theorem structFacts_ok' (rs : RustStruct) (hs : StructOk rs) (st : Imports) (d : GoStruct) (st' : Imports)
    (h : structFacts U cfg rs st = .ok (d, st')) : GoStructOk d := by
  unfold structFacts at h
  obtain ⟨name, hname, h⟩ := obind_ok h
  obtain ⟨fields, st1, hf, h⟩ := obind_pair_ok h
  cases h
  exact ⟨hs.docs, KeyStr.nb (acr_key U hU H hs.name hname), hs.generics,
    fieldsFacts_ok' U hU H rs.fields st fields _ hs.fields hf⟩

theorem writeStruct_nb' (rs : RustStruct) (hs : StructOk rs) (st : Imports) (text : Str) (st' : Imports)
    (h : writeStruct U cfg rs st = .ok (text, st')) : NB G text := by
  unfold writeStruct at h
  obtain ⟨d, st1, hd, h⟩ := obind_pair_ok h
  cases h
  exact renderStruct_nb d (structFacts_ok' U hU H rs hs st d _ hd)

theorem writeAlias_nb' (a : RustTypeAlias) (ha : AliasOk a) (st : Imports) (text : Str) (st' : Imports)
    (h : writeAlias U cfg a st = .ok (text, st')) : NB G text := by
  unfold writeAlias aliasFacts at h
  obtain ⟨d, st1, hd, h⟩ := obind_pair_ok h
  cases h
  obtain ⟨name, hname, hd⟩ := obind_ok hd
  obtain ⟨ty, st2, hty, hd⟩ := obind_pair_ok hd
  cases hd
  unfold renderAlias
  nb_pieces
  · exact comments_nb 0 _ ha.docs
  · nb_lit
  · exact KeyStr.nb (acr_key U hU H ha.renamed hname)
  · nb_lit
  · exact formatType_nb' H a.ty st ty _ ha.ty hty
  · nb_lit

omit hU in
theorem writeConst_nb' (c : RustConst) (hc : ConstScope c) (st : Imports) (text : Str) (st' : Imports)
    (h : writeConst U cfg c st = .ok (text, st')) : NB G text := by
  unfold writeConst constFacts at h
  obtain ⟨d, st1, hd, h⟩ := obind_pair_ok h
  cases h
  obtain ⟨ty, st2, hty, hd⟩ := obind_pair_ok hd
  cases hd
  unfold renderValue
  nb_pieces
  · nb_lit
  · exact IdentStr.nb (toPascal_ident hc.name)
  · nb_lit
  · exact formatType_nb' H c.ty st ty _ hc.ty hty
  · nb_lit
  · exact Plain.nb (natToStr_plain G c.expr)
  · nb_lit

theorem unitConsts_ok' (original : Str) (ho : IdentStr original) :
    ∀ (vs : List RustEnumVariant) (cs : List GoConst), (∀ v ∈ vs, VariantOk v) → unitConsts U cfg original vs = .ok cs →
      ∀ c ∈ cs, DocsOk c.comments ∧ NB G c.name ∧ NB G c.ty
  | [], cs, _, h => by simp only [unitConsts] at h; cases h; simp
  | .unit id dcs :: vs, cs, hv, h => by
    simp only [unitConsts] at h
    obtain ⟨en, hen, h⟩ := obind_ok h
    obtain ⟨vn, hvn, h⟩ := obind_ok h
    obtain ⟨rest, hr, h⟩ := obind_ok h
    cases h
    intro c hc
    simp only [List.mem_cons] at hc
    rcases hc with rfl | hc
    · have hvo := hv (.unit id dcs) (by simp)
      have h1 := acr_ident U hU H ho hen
      have h2 := acr_ident U hU H hvo.2.1 hvn
      exact ⟨hvo.1, IdentStr.nb (IdentStr.append h1 h2), IdentStr.nb h1⟩
    · exact unitConsts_ok' original ho vs rest (fun w hw => hv w (by simp [hw])) hr c hc
  | .tuple _ _ _ :: _, cs, _, h => by simp [unitConsts] at h
  | .anonymousStruct _ _ _ :: _, cs, _, h => by simp [unitConsts] at h

theorem anonStructs_ok' (e : RustEnum) (he : EnumOk e) :
    ∀ (l : List (Id × List RustField)) (st : Imports) (ds : List GoStruct) (st' : Imports),
    (∀ p ∈ l, IdentStr p.1.original ∧ ∀ f ∈ p.2, FieldOk f) →
    anonStructs U cfg e l st = .ok (ds, st') → ∀ d ∈ ds, GoStructOk d
  | [], st, ds, st', _, h => by simp only [anonStructs] at h; cases h; simp
  | (id, fs) :: rest, st, ds, st', hl, h => by
    simp only [anonStructs, anonName] at h
    obtain ⟨sn, hsn, h⟩ := obind_ok h
    obtain ⟨d, st1, hd, h⟩ := obind_pair_ok h
    obtain ⟨ds', st2, hds, h⟩ := obind_pair_ok h
    cases h
    intro x hx
    simp only [List.mem_cons] at hx
    rcases hx with rfl | hx
    · obtain ⟨hid, hfs⟩ := hl (id, fs) (by simp)
      have hsnk : KeyStr sn := acr_key U hU H
        (KeyStr.append (KeyStr.append (IdentStr.key he.original) (IdentStr.key hid)) (by decide : KeyStr s%"Inner")) hsn
      refine structFacts_ok' U hU H _ ⟨?_, hsnk, ?_, hfs⟩ st _ st1 hd
      · exact anonymousStruct_docs e _ _ fs hid he.original
      · exact fun g hg => he.generics g (anonymousStruct_generics e _ _ fs g hg)
    · exact anonStructs_ok' e he rest st1 ds' _ (fun p hp => hl p (by simp [hp])) hds x hx

theorem algVariant_ok' (e : RustEnum) (he : EnumOk e) (sn : Str) (hsn : IdentStr sn) (tagKey : Str)
    (htag : IdentStr tagKey) (cs : List Str) (v : RustEnumVariant) (hv : VariantOk v) (st : Imports)
    (g : GoAlgVariant) (st' : Imports) (h : algVariant U cfg e sn tagKey cs v st = .ok (g, st')) : AlgVariantOk g := by
  unfold algVariant at h
  obtain ⟨vn, hvn, h⟩ := obind_ok h
  obtain ⟨vt, st1, hvt, h⟩ := obind_pair_ok h
  obtain ⟨tp, htp, h⟩ := obind_ok h
  obtain ⟨pl, hpl, h⟩ := obind_ok h
  cases h
  have hvni : IdentStr vn := acr_ident U hU H hv.original hvn
  have htpi : IdentStr tp := acr_ident U hU H (toPascal_ident htag) htp
  have hconst : NB G (sn ++ tp ++ s%"Variant" ++ vn) :=
    IdentStr.nb (IdentStr.append (IdentStr.append (IdentStr.append hsn htpi) (by decide : IdentStr s%"Variant")) hvni)
  have hvtn : ∀ t, vt = some t → NB G t := by
    intro t ht
    subst ht
    cases v with
    | unit id dcs => simp only at hvt; cases hvt
    | tuple id dcs ty =>
      simp only at hvt
      cases hf : formatType cfg ty st with
      | ok r =>
        obtain ⟨t', st2⟩ := r
        rw [hf] at hvt
        simp only [Outcome.ok.injEq, Prod.mk.injEq, Option.some.injEq] at hvt
        rw [← hvt.1]
        exact formatType_nb' H ty st t' st2 hv.2.2.2 hf
      | err x => rw [hf] at hvt; cases hvt
      | panic x => rw [hf] at hvt; cases hvt
    | anonymousStruct id dcs fs =>
      simp only [anonName] at hvt
      obtain ⟨n, hn, hvt⟩ := obind_ok hvt
      simp only [Outcome.ok.injEq, Prod.mk.injEq, Option.some.injEq] at hvt
      rw [← hvt.1]
      exact IdentStr.nb (acr_ident U hU H
        (IdentStr.append (IdentStr.append he.original hvni) (by decide : IdentStr s%"Inner")) hn)
  refine ⟨hv.docs, IdentStr.nb hvni, hconst, ?_⟩
  intro p hp
  cases vt with
  | none => simp only at hpl; cases hpl; cases hp
  | some t =>
    simp only at hpl
    obtain ⟨ft, hft, hpl⟩ := obind_ok hpl
    cases hpl
    cases hp
    exact acr_nb U hU H (hvtn t rfl) hft

theorem algVariants_ok' (e : RustEnum) (he : EnumOk e) (sn : Str) (hsn : IdentStr sn) (tagKey : Str)
    (htag : IdentStr tagKey) (cs : List Str) : ∀ (vs : List RustEnumVariant) (st : Imports) (gs : List GoAlgVariant)
    (st' : Imports), (∀ v ∈ vs, VariantOk v) → algVariants U cfg e sn tagKey cs vs st = .ok (gs, st') →
    ∀ g ∈ gs, AlgVariantOk g
  | [], st, gs, st', _, h => by simp only [algVariants] at h; cases h; simp
  | v :: vs, st, gs, st', hv, h => by
    simp only [algVariants] at h
    obtain ⟨g, st1, hg, h⟩ := obind_pair_ok h
    obtain ⟨rest, st2, hrest, h⟩ := obind_pair_ok h
    cases h
    intro x hx
    simp only [List.mem_cons] at hx
    rcases hx with rfl | hx
    · exact algVariant_ok' U hU H e he sn hsn tagKey htag cs v (hv v (by simp)) st _ st1 hg
    · exact algVariants_ok' e he sn hsn tagKey htag cs vs st1 rest _ (fun w hw => hv w (by simp [hw])) hrest x hx

theorem algEnumFacts_ok' (e : RustEnum) (he : EnumOk e) (tagKey contentKey : Str) (hk : e.keys = some (tagKey, contentKey))
    (cs : List Str) (st : Imports) (d : GoAlgEnum) (st' : Imports)
    (h : algEnumFacts U cfg e tagKey contentKey cs st = .ok (d, st')) : AlgEnumOk d := by
  have htag : IdentStr tagKey := he.tag _ hk
  have hcontent : KeyStr contentKey := he.content _ hk
  unfold algEnumFacts at h
  obtain ⟨anonymous, st1, ha, h⟩ := obind_pair_ok h
  obtain ⟨name, hname, h⟩ := obind_ok h
  simp only [fieldName] at h
  obtain ⟨tagField, htf, h⟩ := obind_ok h
  obtain ⟨short, hs, h⟩ := obind_ok h
  obtain ⟨tagAcr, hta, h⟩ := obind_ok h
  obtain ⟨variants, st2, hvs, h⟩ := obind_pair_ok h
  cases h
  have hni : IdentStr name := acr_ident U hU H he.original hname
  exact ⟨he.docs, anonStructs_ok' U hU H e he _ st anonymous st1 (structVariants_scope e he) ha,
    IdentStr.nb hni, IdentStr.nb (GoF.shortName_ident U hU _ he.original short hs),
    IdentStr.nb (IdentStr.append (IdentStr.append hni (toPascal_ident (acr_ident U hU H htag hta))) (by decide : IdentStr s%"s")),
    IdentStr.nb (acr_ident U hU H (toPascal_ident htag) htf), KeyStr.nb (toCamel_key hcontent), IdentStr.key htag, hcontent,
    algVariants_ok' U hU H e he name hni tagKey htag cs e.variants st1 variants _ he.variants hvs⟩

/-- **Go enums from the parsed enum, with an acronym list** -/
theorem writeEnum_nb' (e : RustEnum) (he : EnumOk e) (cs : List Str) (st : Imports) (text : Str) (st' : Imports)
    (h : writeEnum U cfg e cs st = .ok (text, st')) : NB G text := by
  unfold writeEnum at h
  split at h
  · obtain ⟨anonymous, st1, ha, h⟩ := obind_pair_ok h
    obtain ⟨name, hname, h⟩ := obind_ok h
    obtain ⟨consts, hc, h⟩ := obind_ok h
    cases h
    have hanon := anonStructs_ok' U hU H e he _ st anonymous _ (structVariants_scope e he) ha
    refine NB.append (NB.flatMap _ _ fun s hs => renderStruct_nb s (hanon s hs)) ?_
    exact renderUnitEnum_nb { comments := e.comments, name := name, consts := consts } he.docs
      (IdentStr.nb (acr_ident U hU H he.original hname))
      (unitConsts_ok' U hU H e.id.original he.original e.variants consts he.variants hc)
  · rename_i tagKey contentKey hk
    obtain ⟨d, st1, hd, h⟩ := obind_pair_ok h
    simp only [Outcome.ok.injEq, Prod.mk.injEq] at h
    obtain ⟨rfl, rfl⟩ := h
    exact renderAlgEnum_nb d (algEnumFacts_ok' U hU H e he tagKey contentKey hk cs st d _ hd)

theorem writeItem_nb' (cs : List Str) (it : RustItem) (hs : GoF.ItemOk it) (st : Imports) (text : Str) (st' : Imports)
    (h : writeItem U cfg cs it st = .ok (text, st')) : NB G text := by
  cases it with
  | struct s => exact writeStruct_nb' U hU H s hs st text st' h
  | «enum» e => exact writeEnum_nb' U hU H e hs cs st text st' h
  | alias a => exact writeAlias_nb' U hU H a hs st text st' h
  | const c => exact writeConst_nb' U H c hs st text st' h

theorem generate_nb' (hf : GoF.FileOk cfg) (d : ParsedData)
    (hitems : ∀ it ∈ TsV.C12L.itemsOf d, GoF.ItemOk it) (st0 : Imports) (h0 : GoF.StOk st0) (text : Str) (st : Imports)
    (h : generate U cfg d st0 = .ok (text, st)) : NB G text ∧ GoF.StOk st := by
  obtain ⟨items, blocks, ho, hth, rfl⟩ := TsV.C03E.Go.generate_blocks U cfg d st0 text st h
  obtain ⟨hb, hst⟩ := Threaded.inv (P := GoF.StOk) (Q := NB G) hth (GoF.addImport_ok h0 (by decide))
    (fun it hit s b s' hs hw =>
      ⟨writeItem_nb' U hU H _ it (hitems it (mem_of_generateOrder ho hit)) s b s' hw,
       GoF.writeItem_pres U cfg _ it s b s' hw hs⟩)
  exact ⟨((GoF.beginFile_nb cfg hf).append (GoF.renderImports_nb st hst)).append (NB.flatten _ hb), hst⟩

theorem generateFrom_nb' (hf : GoF.FileOk cfg) :
    ∀ (jobs : List (Str × ParsedData × Option Pipeline.ScopedCrateTypes)) (st0 : Imports), GoF.StOk st0 → GoF.JobsOk jobs →
      ∀ outs, generateFrom U cfg jobs st0 = .ok outs → ∀ o ∈ outs, NB G o.2
  | [], _, _, _, outs, h => by simp only [generateFrom] at h; cases h; simp
  | (crate, d, imps) :: rest, st0, h0, hj, outs, h => by
    simp only [generateFrom] at h
    obtain ⟨text, st, hg, h⟩ := obind_pair_ok h
    obtain ⟨outs', ho, h⟩ := obind_ok h
    cases h
    obtain ⟨hnb, hst⟩ := generate_nb' U hU H hf d (hj (crate, d, imps) (by simp)) st0 h0 text st hg
    intro o hoo
    rcases List.mem_cons.1 hoo with rfl | hoo
    · exact hnb
    · exact generateFrom_nb' hf rest st hst (fun j hjm => hj j (by simp [hjm])) outs' ho o hoo

end withAcronyms

end TsV.C10Files.GoAcr
