import TsV.Model.Deps
/-!
# Helper lemmas for `Props/C11_Coverage.lean`: the dependency extraction `Deps.depsItem` / `Deps.depsType`

* equational "step" lemmas for the two mutually recursive functions (one per shape of the input);
* the key structural fact: the nested `get_dependencies(tp, …)` call inside
  `get_dependencies_from_type` is always a **no-op** (the name was inserted into `seen` just
  before), so `res` only ever receives *direct* references — except through the `generic_types`
  loop of a type alias;
* the unconditional invariant `Ext`: `seen` only shrinks (as a sublist), `res` only grows, and
  everything pushed can be looked up;
* state restoration for `seen`;
* `lookup` / `getIndex` / `mapM` facts used to read the graph off `Deps.graph`.
-/
namespace TsV.Deps
open TsV

variable (items : List RustItem)

/-! ### lists -/

theorem erase_snoc_self {l : List Str} {d : Str} (h : d ∉ l) : (l ++ [d]).erase d = l := by
  rw [List.erase_append_right _ h]; simp

/-- a sublist of `S ++ [x]` loses its `x` and becomes a sublist of `S` -/
theorem sublist_erase_of_snoc {S X : List Str} {x : Str} (hx : x ∉ S) (h : X.Sublist (S ++ [x])) :
    (X.erase x).Sublist S := by
  obtain ⟨X1, X2, rfl, h1, h2⟩ := List.sublist_append_iff.1 h
  have hx1 : x ∉ X1 := fun hm => hx (h1.subset hm)
  rw [List.erase_append_right _ hx1]
  have : X2 = [] ∨ X2 = [x] := by
    cases h2 with
    | cons _ h => left; simpa using h
    | cons_cons _ h => right; have := List.sublist_nil.1 h; simp [this]
  rcases this with rfl | rfl <;> simpa using h1

/-- a sublist that still contains every element of a duplicate-free list is that list -/
theorem sublist_eq_of_nodup {α} {l' l : List α} (hs : l'.Sublist l) (hn : l.Nodup)
    (hall : ∀ y ∈ l, y ∈ l') : l' = l := by
  induction hs with
  | slnil => rfl
  | @cons l1 l2 a h ih =>
    exfalso
    have : a ∈ l2 := h.subset (hall a (by simp))
    exact (List.nodup_cons.1 hn).1 this
  | @cons_cons l1 l2 a h ih =>
    have hn' := List.nodup_cons.1 hn
    congr 1
    apply ih hn'.2
    intro y hy
    have := hall y (by simp [hy])
    rcases List.mem_cons.1 this with rfl | h'
    · exact absurd hy hn'.1
    · exact h'

theorem foldl_congr_mem {α β} (F G : β → α → β) (l : List α) (h : ∀ a ∈ l, ∀ b, F b a = G b a) (b : β) :
    l.foldl F b = l.foldl G b := by
  induction l generalizing b with
  | nil => rfl
  | cons a t ih =>
    simp only [List.foldl_cons]
    rw [h a (by simp) b]
    exact ih (fun a' ha' => h a' (by simp [ha'])) _

/-! ### `Option`-valued `mapM` -/

theorem mapM_length {α β} (f : α → Option β) : ∀ (l : List α) (r : List β),
    l.mapM f = some r → r.length = l.length
  | [], r, h => by simp at h; subst h; rfl
  | a :: t, r, h => by
    simp only [List.mapM_cons] at h
    cases hfa : f a with
    | none => simp [hfa] at h
    | some b =>
      cases ht : t.mapM f with
      | none => simp [hfa, ht] at h
      | some bs =>
        simp [hfa, ht] at h; subst h
        simp [mapM_length f t bs ht]

theorem mapM_getElem? {α β} (f : α → Option β) : ∀ (l : List α) (r : List β),
    l.mapM f = some r → ∀ (i : Nat) (a : α), l[i]? = some a → ∃ b, r[i]? = some b ∧ f a = some b
  | [], r, h, i, a, ha => by simp at ha
  | a0 :: t, r, h, i, a, ha => by
    simp only [List.mapM_cons] at h
    cases hfa : f a0 with
    | none => simp [hfa] at h
    | some b0 =>
      cases ht : t.mapM f with
      | none => simp [hfa, ht] at h
      | some bs =>
        simp [hfa, ht] at h; subst h
        cases i with
        | zero => simp at ha; subst ha; exact ⟨b0, by simp, hfa⟩
        | succ i =>
          simp only [List.getElem?_cons_succ] at ha ⊢
          exact mapM_getElem? f t bs ht i a ha

theorem mapM_mem_of_mem {α β} (f : α → Option β) (l : List α) (r : List β)
    (h : l.mapM f = some r) (a : α) (ha : a ∈ l) : ∃ b ∈ r, f a = some b := by
  obtain ⟨i, hi⟩ := List.mem_iff_getElem?.1 ha
  obtain ⟨b, hb, hf⟩ := mapM_getElem? f l r h i a hi
  exact ⟨b, List.mem_iff_getElem?.2 ⟨i, hb⟩, hf⟩

theorem mapM_mem {α β} (f : α → Option β) : ∀ (l : List α) (r : List β),
    l.mapM f = some r → ∀ b ∈ r, ∃ a ∈ l, f a = some b
  | [], r, h, b, hb => by simp at h; subst h; simp at hb
  | a :: t, r, h, b, hb => by
    simp only [List.mapM_cons] at h
    cases hfa : f a with
    | none => simp [hfa] at h
    | some b0 =>
      cases ht : t.mapM f with
      | none => simp [hfa, ht] at h
      | some bs =>
        simp [hfa, ht] at h; subst h
        simp only [List.mem_cons] at hb
        rcases hb with rfl | hb
        · exact ⟨a, by simp, hfa⟩
        · obtain ⟨a', ha', hf'⟩ := mapM_mem f t bs ht b hb
          exact ⟨a', by simp [ha'], hf'⟩

theorem mapM_isSome {α β} (f : α → Option β) : ∀ (l : List α),
    (∀ a ∈ l, (f a).isSome) → (l.mapM f).isSome
  | [], _ => by simp
  | a :: t, h => by
    simp only [List.mapM_cons]
    obtain ⟨b, hb⟩ := Option.isSome_iff_exists.1 (h a (by simp))
    obtain ⟨bs, hbs⟩ := Option.isSome_iff_exists.1 (mapM_isSome f t (fun a' ha' => h a' (by simp [ha'])))
    simp [hb, hbs]

/-! ### `lookup` and `getIndex` -/

variable {items}

theorem lookup_name {id : Str} {thing : RustItem} (h : lookup items id = some thing) :
    thing.originalName = id := by
  unfold lookup at h
  have := List.find?_some h
  simpa using this

theorem lookup_mem {id : Str} {thing : RustItem} (h : lookup items id = some thing) :
    thing ∈ items := by
  unfold lookup at h
  have := List.mem_of_find?_eq_some h
  simpa using this

theorem lookup_isSome_of_mem {it : RustItem} (h : it ∈ items) :
    (lookup items it.originalName).isSome := by
  unfold lookup
  rw [List.find?_isSome]
  exact ⟨it, by simpa using h, by simp⟩

theorem sameItem_name {a b : RustItem} (h : sameItem a b = true) : a.originalName = b.originalName := by
  cases a <;> cases b <;> simp_all [sameItem, RustItem.originalName]

theorem sameItem_refl (a : RustItem) : sameItem a a = true := by
  cases a <;> simp [sameItem]

theorem getIndex_spec {thing : RustItem} {j : Nat} (h : getIndex items thing = some j) :
    ∃ c, items[j]? = some c ∧ c.originalName = thing.originalName := by
  unfold getIndex at h
  obtain ⟨hj, hp, _⟩ := List.findIdx?_eq_some_iff_getElem.1 h
  exact ⟨items[j], by simp [hj], sameItem_name hp⟩

theorem getIndex_isSome_of_mem {thing : RustItem} (h : thing ∈ items) :
    (getIndex items thing).isSome := by
  unfold getIndex
  rw [List.findIdx?_isSome]
  simp only [List.any_eq_true]
  exact ⟨thing, h, sameItem_refl thing⟩

/-- original names are pairwise distinct -/
def NamesDistinct (items : List RustItem) : Prop := (items.map RustItem.originalName).Nodup

theorem names_inj (hd : NamesDistinct items) {i j : Nat} {a b : RustItem}
    (ha : items[i]? = some a) (hb : items[j]? = some b) (hn : a.originalName = b.originalName) :
    i = j := by
  obtain ⟨hi, rfl⟩ := List.getElem?_eq_some_iff.1 ha
  obtain ⟨hj, rfl⟩ := List.getElem?_eq_some_iff.1 hb
  have hi' : i < (items.map RustItem.originalName).length := by simpa using hi
  have hj' : j < (items.map RustItem.originalName).length := by simpa using hj
  have : (items.map RustItem.originalName)[i] = (items.map RustItem.originalName)[j] := by
    simpa using hn
  exact (List.getElem_inj hd).mp this

theorem lookup_of_distinct (hd : NamesDistinct items) {j : Nat} {b : RustItem}
    (hb : items[j]? = some b) : lookup items b.originalName = some b := by
  have hmem : b ∈ items := List.mem_iff_getElem?.2 ⟨j, hb⟩
  obtain ⟨c, hc⟩ := Option.isSome_iff_exists.1 (lookup_isSome_of_mem hmem)
  have hcn := lookup_name hc
  obtain ⟨k, hk⟩ := List.mem_iff_getElem?.1 (lookup_mem hc)
  have := names_inj hd hk hb hcn
  subst this
  rw [hk] at hb; cases hb
  exact hc

theorem getIndex_of_distinct (hd : NamesDistinct items) {j : Nat} {b : RustItem}
    (hb : items[j]? = some b) : getIndex items b = some j := by
  have hmem : b ∈ items := List.mem_iff_getElem?.2 ⟨j, hb⟩
  obtain ⟨k, hk⟩ := Option.isSome_iff_exists.1 (getIndex_isSome_of_mem hmem)
  obtain ⟨c, hc, hcn⟩ := getIndex_spec hk
  have := names_inj hd hc hb hcn
  subst this
  exact hk

/-! ### the state -/

theorem DS.eta (ds : DS) : (⟨ds.res, ds.seen⟩ : DS) = ds := by cases ds; rfl

theorem insert_fresh {ds : DS} {x : Str} (h : x ∉ ds.seen) :
    ds.insert x = (true, ⟨ds.res, ds.seen ++ [x]⟩) := by
  simp [DS.insert, h]

theorem insert_seen {ds : DS} {x : Str} (h : x ∈ ds.seen) : ds.insert x = (false, ds) := by
  simp [DS.insert, h]

@[simp] theorem remove_res (ds : DS) (x : Str) : (ds.remove x).res = ds.res := rfl
@[simp] theorem remove_seen (ds : DS) (x : Str) : (ds.remove x).seen = ds.seen.erase x := rfl

variable (items)

/-! ### the nested `get_dependencies` call is a no-op -/

/-- `get_dependencies` on an item whose name is already in `seen` (or without fuel) changes nothing -/
theorem depsItem_of_seen (f : Nat) (it : RustItem) (ds : DS) (h : it.originalName ∈ ds.seen) :
    depsItem items f it ds = ds := by
  cases f with
  | zero => cases it <;> simp [depsItem]
  | succ f =>
    cases it with
    | struct s => simp only [RustItem.originalName] at h; simp [depsItem, insert_seen h]
    | enum e =>
      simp only [RustItem.originalName] at h
      simp only [depsItem]; cases e.keys <;> simp [insert_seen h]
    | alias a => simp only [RustItem.originalName] at h; simp [depsItem, insert_seen h]
    | const c => simp only [RustItem.originalName] at h; simp [depsItem, insert_seen h]

/-! ### step lemmas for `depsType` -/

theorem depsType_zero (t : RustType) (ds : DS) : depsType items 0 t ds = ds := by
  simp [depsType]

/-- the head of `Simple { id }` / `Generic { id, .. }`: if `id` is an item and not in `seen`, push
it; `seen` is left as it was (insert, no-op `get_dependencies`, remove) -/
def headPush (id : Str) (ds : DS) : DS :=
  match lookup items id with
  | some _ => if id ∈ ds.seen then ds else ⟨ds.res ++ [id], ds.seen⟩
  | none => ds

@[simp] theorem headPush_seen (id : Str) (ds : DS) : (headPush items id ds).seen = ds.seen := by
  unfold headPush; cases lookup items id <;> simp <;> split <;> rfl

theorem mem_headPush_res {id : Str} {ds : DS} {x : Str} :
    x ∈ (headPush items id ds).res ↔
      x ∈ ds.res ∨ (x = id ∧ (lookup items id).isSome ∧ id ∉ ds.seen) := by
  unfold headPush
  cases h : lookup items id with
  | none => simp
  | some thing =>
    by_cases hs : id ∈ ds.seen <;> simp [hs]

/-- `for t in ts { get_dependencies_from_type(t, …) }` -/
def typesFold (f : Nat) (ts : List RustType) (ds : DS) : DS :=
  ts.foldl (fun ds t => depsType items f t ds) ds

/-- the `generic_types` loop of `get_type_alias_dependencies` -/
def gensFold (f : Nat) (gs : List Str) (ds : DS) : DS :=
  gs.foldl (fun ds g => match lookup items g with
    | some thing => depsItem items f thing ds
    | none => ds) ds

theorem depsType_simple (f : Nat) (id : Str) (ds : DS) :
    depsType items (f+1) (.simple id) ds = (headPush items id ds).remove id := by
  cases h : lookup items id with
  | none => simp only [depsType, RustType.id, h, headPush]
  | some thing =>
    by_cases hs : id ∈ ds.seen
    · simp [depsType, RustType.id, h, headPush, insert_seen hs, hs]
    · have hn : thing.originalName ∈ (DS.push ⟨ds.res, ds.seen ++ [id]⟩ id).seen := by
        rw [lookup_name h]; simp [DS.push]
      simp only [depsType, RustType.id, h, insert_fresh hs, if_true, headPush, hs, if_false]
      rw [depsItem_of_seen items f thing _ hn]
      simp [DS.remove, DS.push, erase_snoc_self hs]

/-- the head is handled first, then the parameters are walked **unconditionally** -/
theorem depsType_generic (f : Nat) (id : Str) (ps : List RustType) (ds : DS) :
    depsType items (f+1) (.generic id ps) ds =
      (typesFold items f ps (headPush items id ds)).remove id := by
  cases h : lookup items id with
  | none => simp only [depsType, RustType.id, h, headPush, typesFold]
  | some thing =>
    by_cases hs : id ∈ ds.seen
    · simp [depsType, RustType.id, h, headPush, insert_seen hs, hs, typesFold]
    · have hn : thing.originalName ∈ (DS.push ⟨ds.res, ds.seen ++ [id]⟩ id).seen := by
        rw [lookup_name h]; simp [DS.push]
      simp only [depsType, RustType.id, h, insert_fresh hs, if_true, headPush, hs, if_false,
        typesFold]
      rw [depsItem_of_seen items f thing _ hn]
      simp [DS.remove, DS.push, erase_snoc_self hs]

theorem depsType_vec (f : Nat) (t : RustType) (ds : DS) :
    depsType items (f+1) (.vec t) ds = (depsType items f t ds).remove (s%"Vec") := by
  simp only [depsType, RustType.id]
theorem depsType_array (f : Nat) (t : RustType) (n : Nat) (ds : DS) :
    depsType items (f+1) (.array t n) ds = (depsType items f t ds).remove (s%"[]") := by
  simp only [depsType, RustType.id]
theorem depsType_slice (f : Nat) (t : RustType) (ds : DS) :
    depsType items (f+1) (.slice t) ds = (depsType items f t ds).remove (s%"&[]") := by
  simp only [depsType, RustType.id]
theorem depsType_option (f : Nat) (t : RustType) (ds : DS) :
    depsType items (f+1) (.option t) ds = (depsType items f t ds).remove (s%"Option") := by
  simp only [depsType, RustType.id]
theorem depsType_hashMap (f : Nat) (k v : RustType) (ds : DS) :
    depsType items (f+1) (.hashMap k v) ds =
      (depsType items f v (depsType items f k ds)).remove (s%"HashMap") := by
  simp only [depsType, RustType.id]
theorem depsType_prim (f : Nat) (p : Prim) (ds : DS) :
    depsType items (f+1) (.prim p) ds = ds.remove p.id := by
  simp only [depsType, RustType.id]

/-! ### step lemma for `depsItem` -/

/-- the types `get_dependencies` walks for an item, in order -/
def typesOf : RustItem → List RustType
  | .struct s => s.fields.map (·.ty)
  | .enum e =>
    match e.keys with
    | none => []
    | some _ => e.variants.flatMap fun v => match v with
      | .tuple _ _ ty => [ty]
      | .anonymousStruct _ _ fs => fs.map (·.ty)
      | .unit _ _ => []
  | .alias a => [a.ty]
  | .const c => [c.ty]

/-- the generic parameter names `get_type_alias_dependencies` looks up -/
def gensOf : RustItem → List Str
  | .alias a => a.genericTypes
  | _ => []

theorem depsItem_zero (it : RustItem) (ds : DS) : depsItem items 0 it ds = ds := by
  cases it <;> simp [depsItem]

/-- one uniform description of `get_dependencies` on an item whose name is not in `seen` -/
theorem depsItem_succ (f : Nat) (it : RustItem) (ds : DS) (h : it.originalName ∉ ds.seen) :
    depsItem items (f+1) it ds =
      (gensFold items f (gensOf it)
        (typesFold items f (typesOf it) ⟨ds.res, ds.seen ++ [it.originalName]⟩)).remove
          it.originalName := by
  cases it with
  | struct s =>
    simp only [RustItem.originalName] at h
    simp only [depsItem, insert_fresh h, if_true, gensOf, gensFold, typesOf, typesFold,
      RustItem.originalName, List.foldl_nil, List.foldl_map]
  | enum e =>
    simp only [RustItem.originalName] at h
    simp only [depsItem, gensOf, gensFold, typesOf, typesFold, RustItem.originalName, List.foldl_nil]
    cases hk : e.keys with
    | none =>
      simp only [List.foldl_nil]
      cases ds with
      | mk r s => simp only [DS.remove] at *; rw [erase_snoc_self h]
    | some kv =>
      simp only [insert_fresh h, if_true, List.foldl_flatMap]
      congr 1
      apply foldl_congr_mem
      intro v _ b
      cases v <;> simp [List.foldl_map]
  | alias a =>
    simp only [RustItem.originalName] at h
    simp only [depsItem, insert_fresh h, if_true, gensOf, gensFold, typesOf, typesFold,
      RustItem.originalName, List.foldl_nil, List.foldl_cons]
    rfl
  | const c =>
    simp only [RustItem.originalName] at h
    simp only [depsItem, insert_fresh h, if_true, gensOf, gensFold, typesOf, typesFold,
      RustItem.originalName, List.foldl_nil, List.foldl_cons]

/-! ### the unconditional invariant -/

/-- `seen` only shrinks, `res` only grows, everything pushed resolves -/
structure Ext (ds ds' : DS) : Prop where
  seen : ds'.seen.Sublist ds.seen
  res : ∃ new, ds'.res = ds.res ++ new ∧ ∀ x ∈ new, (lookup items x).isSome

variable {items}

theorem Ext.refl (ds : DS) : Ext items ds ds := ⟨List.Sublist.refl _, [], by simp, by simp⟩

theorem Ext.trans {a b c : DS} (h1 : Ext items a b) (h2 : Ext items b c) : Ext items a c := by
  obtain ⟨n1, hr1, hn1⟩ := h1.res
  obtain ⟨n2, hr2, hn2⟩ := h2.res
  refine ⟨h2.seen.trans h1.seen, n1 ++ n2, by rw [hr2, hr1, List.append_assoc], ?_⟩
  intro x hx
  rcases List.mem_append.1 hx with h | h
  · exact hn1 x h
  · exact hn2 x h

theorem Ext.remove {a b : DS} (h : Ext items a b) (x : Str) : Ext items a (b.remove x) :=
  ⟨(List.erase_sublist).trans h.seen, h.res⟩

theorem Ext.mono {a b : DS} (h : Ext items a b) {x : Str} (hx : x ∈ a.res) : x ∈ b.res := by
  obtain ⟨n, hr, _⟩ := h.res
  rw [hr]; simp [hx]

theorem Ext.foldl {α} (F : DS → α → DS) (l : List α) (h : ∀ a ∈ l, ∀ ds, Ext items ds (F ds a))
    (ds : DS) : Ext items ds (l.foldl F ds) := by
  induction l generalizing ds with
  | nil => exact Ext.refl ds
  | cons a t ih =>
    simp only [List.foldl_cons]
    exact (h a (by simp) ds).trans (ih (fun a' ha' => h a' (by simp [ha'])) _)

/-- insert `x`, push some resolvable names, run something that satisfies `Ext`, remove `x` -/
theorem Ext.bracket {ds ds' : DS} {x : Str} {new0 : List Str} (hx : x ∉ ds.seen)
    (hnew0 : ∀ y ∈ new0, (lookup items y).isSome)
    (h : Ext items ⟨ds.res ++ new0, ds.seen ++ [x]⟩ ds') : Ext items ds (ds'.remove x) := by
  obtain ⟨n, hr, hn⟩ := h.res
  refine ⟨sublist_erase_of_snoc hx h.seen, new0 ++ n, by simp [hr], ?_⟩
  intro y hy
  rcases List.mem_append.1 hy with h' | h'
  · exact hnew0 y h'
  · exact hn y h'

variable (items)

theorem headPush_ext (id : Str) (ds : DS) : Ext items ds (headPush items id ds) := by
  refine ⟨by simp, ?_⟩
  unfold headPush
  cases h : lookup items id with
  | none => exact ⟨[], by simp, by simp⟩
  | some thing =>
    by_cases hs : id ∈ ds.seen
    · simp only [hs, if_true]; exact ⟨[], by simp, by simp⟩
    · simp only [hs, if_false]; exact ⟨[id], rfl, by simp [h]⟩

/-- **unconditional invariant** of both functions, for every fuel and every state -/
theorem ext_all (f : Nat) :
    (∀ it ds, Ext items ds (depsItem items f it ds)) ∧
    (∀ t ds, Ext items ds (depsType items f t ds)) := by
  induction f with
  | zero =>
    exact ⟨fun it ds => by rw [depsItem_zero]; exact Ext.refl ds,
           fun t ds => by rw [depsType_zero]; exact Ext.refl ds⟩
  | succ f ih =>
    obtain ⟨ihI, ihT⟩ := ih
    have hTF : ∀ ts ds, Ext items ds (typesFold items f ts ds) := fun ts ds =>
      Ext.foldl _ ts (fun t _ ds => ihT t ds) ds
    have hGF : ∀ gs ds, Ext items ds (gensFold items f gs ds) := fun gs ds =>
      Ext.foldl _ gs (fun g _ ds => by
        cases lookup items g with
        | none => exact Ext.refl ds
        | some thing => exact ihI thing ds) ds
    refine ⟨?_, ?_⟩
    · intro it ds
      by_cases h : it.originalName ∈ ds.seen
      · rw [depsItem_of_seen items _ it ds h]; exact Ext.refl ds
      · rw [depsItem_succ items f it ds h]
        apply Ext.bracket (new0 := []) h (by simp)
        simp only [List.append_nil]
        exact (hTF _ _).trans (hGF _ _)
    · intro t ds
      cases t with
      | simple id => rw [depsType_simple]; exact (headPush_ext items id ds).remove id
      | generic id ps =>
        rw [depsType_generic]; exact ((headPush_ext items id ds).trans (hTF _ _)).remove id
      | vec t => rw [depsType_vec]; exact (ihT t ds).remove _
      | array t n => rw [depsType_array]; exact (ihT t ds).remove _
      | slice t => rw [depsType_slice]; exact (ihT t ds).remove _
      | option t => rw [depsType_option]; exact (ihT t ds).remove _
      | hashMap k v => rw [depsType_hashMap]; exact ((ihT k ds).trans (ihT v _)).remove _
      | prim p => rw [depsType_prim]; exact (Ext.refl ds).remove _

theorem depsType_ext (f : Nat) (t : RustType) (ds : DS) : Ext items ds (depsType items f t ds) :=
  (ext_all items f).2 t ds
theorem depsItem_ext (f : Nat) (it : RustItem) (ds : DS) : Ext items ds (depsItem items f it ds) :=
  (ext_all items f).1 it ds
theorem typesFold_ext (f : Nat) (ts : List RustType) (ds : DS) :
    Ext items ds (typesFold items f ts ds) :=
  Ext.foldl _ ts (fun t _ ds => depsType_ext items f t ds) ds
theorem gensFold_ext (f : Nat) (gs : List Str) (ds : DS) : Ext items ds (gensFold items f gs ds) :=
  Ext.foldl _ gs (fun g _ ds => by
    cases lookup items g with
    | none => exact Ext.refl ds
    | some thing => exact depsItem_ext items f thing ds) ds

theorem gensFold_of_none (f : Nat) (gs : List Str) (ds : DS) (h : ∀ g ∈ gs, lookup items g = none) :
    gensFold items f gs ds = ds := by
  induction gs generalizing ds with
  | nil => rfl
  | cons g t ih =>
    simp only [gensFold, List.foldl_cons, h g (by simp)]
    exact ih ds (fun g' hg' => h g' (by simp [hg']))

/-- at top level (fresh `HashSet`) the item's own traversal: `res` is what the two loops pushed -/
theorem depsItem_top (f : Nat) (it : RustItem) :
    (depsItem items (f+1) it ⟨[], []⟩).res =
      (gensFold items f (gensOf it) (typesFold items f (typesOf it) ⟨[], [it.originalName]⟩)).res := by
  rw [depsItem_succ items f it ⟨[], []⟩ (by simp)]
  simp

/-- **the `seen` set is empty again** after the traversal of an item started on an empty set —
unconditionally (cycles, self references and the trailing `remove` included) -/
theorem depsItem_top_seen (f : Nat) (it : RustItem) : (depsItem items f it ⟨[], []⟩).seen = [] := by
  have := (depsItem_ext items f it ⟨[], []⟩).seen
  simpa using this

/-! ### state restoration -/

theorem mem_allIdsList {p : RustType} {ps : List RustType} (hp : p ∈ ps) {y : Str}
    (hy : y ∈ p.allIds) : y ∈ RustType.allIdsList ps := by
  induction ps with
  | nil => simp at hp
  | cons a t ih =>
    simp only [RustType.allIdsList, List.mem_append]
    rcases List.mem_cons.1 hp with rfl | h
    · exact Or.inl hy
    · exact Or.inr (ih h)

/-- names that do not occur in the type (as an id at any depth, container ids such as `Vec`
included) stay in `seen` -/
theorem depsType_retains (f : Nat) : ∀ (t : RustType) (ds : DS) (y : Str), y ∈ ds.seen → y ∉ t.allIds →
    y ∈ (depsType items f t ds).seen := by
  induction f with
  | zero => intro t ds y hy _; rw [depsType_zero]; exact hy
  | succ f ih =>
    have hfold : ∀ (ps : List RustType) (ds : DS) (y : Str), y ∈ ds.seen →
        y ∉ RustType.allIdsList ps → y ∈ (typesFold items f ps ds).seen := by
      intro ps
      induction ps with
      | nil => intro ds y hy _; exact hy
      | cons p t iht =>
        intro ds y hy hn
        simp only [RustType.allIdsList, List.mem_append, not_or] at hn
        simp only [typesFold, List.foldl_cons]
        exact iht _ y (ih p ds y hy hn.1) hn.2
    intro t ds y hy hn
    cases t with
    | simple id =>
      have hne : y ≠ id := by simpa [RustType.allIds] using hn
      rw [depsType_simple]
      simpa [List.mem_erase_of_ne hne] using hy
    | generic id ps =>
      simp only [RustType.allIds, List.mem_cons, not_or] at hn
      rw [depsType_generic]
      simp only [remove_seen, List.mem_erase_of_ne hn.1]
      exact hfold ps _ y (by simpa using hy) hn.2
    | vec t =>
      simp only [RustType.allIds, List.mem_cons, not_or] at hn
      rw [depsType_vec]; simp only [remove_seen, List.mem_erase_of_ne hn.1]; exact ih t ds y hy hn.2
    | array t n =>
      simp only [RustType.allIds, List.mem_cons, not_or] at hn
      rw [depsType_array]; simp only [remove_seen, List.mem_erase_of_ne hn.1]; exact ih t ds y hy hn.2
    | slice t =>
      simp only [RustType.allIds, List.mem_cons, not_or] at hn
      rw [depsType_slice]; simp only [remove_seen, List.mem_erase_of_ne hn.1]; exact ih t ds y hy hn.2
    | option t =>
      simp only [RustType.allIds, List.mem_cons, not_or] at hn
      rw [depsType_option]; simp only [remove_seen, List.mem_erase_of_ne hn.1]; exact ih t ds y hy hn.2
    | hashMap k v =>
      simp only [RustType.allIds, List.mem_cons, List.mem_append, not_or] at hn
      rw [depsType_hashMap]; simp only [remove_seen, List.mem_erase_of_ne hn.1]
      exact ih v _ y (ih k ds y hy hn.2.1) hn.2.2
    | prim p =>
      have hne : y ≠ p.id := by simpa [RustType.allIds] using hn
      rw [depsType_prim]; simpa [List.mem_erase_of_ne hne] using hy

/-- **state restoration for a type**: if none of the names in `seen` occurs in the type,
`get_dependencies_from_type` hands `seen` back exactly as it found it (the trailing
`seen.remove(tp.id())` removes nothing) -/
theorem depsType_seen_eq (f : Nat) (t : RustType) (ds : DS) (hn : ds.seen.Nodup)
    (h : ∀ y ∈ ds.seen, y ∉ t.allIds) : (depsType items f t ds).seen = ds.seen :=
  sublist_eq_of_nodup (depsType_ext items f t ds).seen hn
    (fun y hy => depsType_retains items f t ds y hy (h y hy))

theorem typesFold_seen_eq (f : Nat) (ts : List RustType) (ds : DS) (hn : ds.seen.Nodup)
    (h : ∀ t ∈ ts, ∀ y ∈ ds.seen, y ∉ t.allIds) : (typesFold items f ts ds).seen = ds.seen := by
  induction ts generalizing ds with
  | nil => rfl
  | cons t ts ih =>
    simp only [typesFold, List.foldl_cons]
    have h1 := depsType_seen_eq items f t ds hn (h t (by simp))
    have := ih (depsType items f t ds) (by rw [h1]; exact hn)
      (fun t' ht' y hy => h t' (by simp [ht']) y (by rw [h1] at hy; exact hy))
    simp only [typesFold] at this
    rw [this, h1]

/-- **state restoration for an item** (no generic parameter of the item names an item): if neither
the names in `seen` nor the item's own name occur in its types, `get_dependencies` hands `seen`
back exactly as it found it -/
theorem depsItem_seen_eq (f : Nat) (it : RustItem) (ds : DS) (hn : ds.seen.Nodup)
    (hg : ∀ g ∈ gensOf it, lookup items g = none)
    (h : ∀ t ∈ typesOf it, ∀ y ∈ t.allIds, y ∉ ds.seen ∧ y ≠ it.originalName) :
    (depsItem items f it ds).seen = ds.seen := by
  by_cases hs : it.originalName ∈ ds.seen
  · rw [depsItem_of_seen items f it ds hs]
  · cases f with
    | zero => rw [depsItem_zero]
    | succ f =>
      rw [depsItem_succ items f it ds hs, gensFold_of_none items f _ _ hg]
      have hn' : (ds.seen ++ [it.originalName]).Nodup := by
        rw [List.nodup_append]
        refine ⟨hn, by simp, ?_⟩
        intro a ha b hb
        simp only [List.mem_singleton] at hb
        subst hb
        intro hab; subst hab; exact hs ha
      have := typesFold_seen_eq items f (typesOf it) ⟨ds.res, ds.seen ++ [it.originalName]⟩ hn'
        (by
          intro t ht y hy hy'
          simp only [List.mem_append, List.mem_singleton] at hy
          rcases hy with hy | hy
          · exact (h t ht y hy').1 hy
          · exact (h t ht y hy').2 hy)
      simp only [remove_seen, this]
      exact erase_snoc_self hs

end TsV.Deps
