import TsV.Lemmas.C12_Swift
import TsV.Lemmas.C12_Scala
import TsV.Lemmas.C12_Python
import TsV.Lemmas.C12_Go
import TsV.Lemmas.C12_TypeScript
import TsV.Lemmas.C12_Kotlin
/-!
# C12 — every helper name typeshare introduces into a file is defined or imported there

For each back end `L`: `helpersUsed` (`C12L.L.used`: the names the text generated for one output
file uses *on typeshare's account* — user-written type overrides and type-mapping targets are the
user's names and are not counted) and `helpersProvided` (what the same output defines or imports),
and `used ⊆ provided`, for every `ParsedData`, every configuration and every printer state left
behind by the files generated earlier in the run (that covers multi-file mode).

* Swift, Go, TypeScript, Scala, Python: the statement holds (`C12_swift`, `C12_go`,
  `C12_typescript`, `C12_scala`, `C12_python`; Scala since the `fix:` commit 37c1b68 made the
  unsigned-integer scan recursive; Python since the `fix:` commits f8d1040 (generic aliases),
  0d6268d (`py-default-custom-fns`) and bfc37c3 (`py-mapped-datetime-import`): the class
  `Known_python` of the previous rounds is empty and gone).
* Kotlin: it does not (`C12_not_full`, `kotlin_not_full`); the failing inputs are characterised
  exactly (`Known_kotlin`: no package configured) and the statement is proved for all others —
  `C12_full` fails for Kotlin without a package and for nothing else (`C12_all_but_kotlin`,
  `C12_full_iff_kotlin`).
-/
namespace TsV.C12
open TsV TsV.C12L

abbrev Job := Str × ParsedData × Option Pipeline.ScopedCrateTypes

/-! ## Swift: `CodableVoid` -/

/-- where the definition of `CodableVoid` has to be for an output file that uses it: in the shared
`Codable.swift` in multi-file mode, at the end of the file itself otherwise -/
def SwiftProvided (cfg : Lang.Swift.Cfg) (multi : Bool) (res : List (Str × Str)) (text : Str) : Prop :=
  if multi then (s%"<post>/Codable.swift", Lang.Swift.writeCodable cfg) ∈ res else Swift.EndsWithCodable cfg text

/-- a whole run: `res` starts with one text per job (same crate names, same order); every one whose
data uses `CodableVoid` finds the definition -/
def Swift_full : Prop :=
  ∀ (E : Ext) (cfg : Lang.Swift.Cfg) (multi : Bool) (jobs : List Job) (res : List (Str × Str)),
    Lang.Swift.generateAll E cfg multi jobs = .ok res →
    ∃ outs, outs <+: res ∧ outs.length = jobs.length ∧
      ∀ p ∈ jobs.zip outs, p.2.1 = p.1.1 ∧ (Swift.used cfg p.1.2.1 = true → SwiftProvided cfg multi res p.2.2)

theorem C12_swift : Swift_full := by
  intro E cfg multi jobs res h
  obtain ⟨outs, hres, hlen, hall⟩ := Swift.generateAll_spec E cfg multi jobs res h
  refine ⟨outs, ⟨_, hres.symm⟩, hlen, ?_⟩
  intro p hp
  refine ⟨(hall p hp).1, ?_⟩
  intro hu
  unfold SwiftProvided
  cases multi with
  | false => exact (hall p hp).2 hu rfl
  | true =>
    have hany : (jobs.any fun j => Swift.used cfg j.2.1) = true :=
      List.any_eq_true.2 ⟨p.1, (List.of_mem_zip hp).1, hu⟩
    simp [hres, hany, Lang.Swift.postGeneration]

/-- the flag is set by formatting `()` at any depth and nowhere else: after one file it is
"before ∨ used", whatever the items, positions and nesting -/
theorem swift_flag_exact (U : UnicodeOps) (cfg : Lang.Swift.Cfg) (multi : Bool) (d : ParsedData)
    (st0 : Bool) (text : Str) (st : Bool) (h : Lang.Swift.generate U cfg multi d st0 = .ok (text, st)) :
    st = (st0 || Swift.used cfg d) := (Swift.generate_spec U cfg multi d st0 text st h).1

/-- single-file mode: provided ⇔ used -/
theorem swift_single_file_iff (U : UnicodeOps) (cfg : Lang.Swift.Cfg) (d : ParsedData) (text : Str) (st : Bool)
    (h : Lang.Swift.generate U cfg false d false = .ok (text, st)) :
    ∃ body, text = Lang.Swift.beginFile cfg ++ body ++
      (if Swift.used cfg d then Lang.Swift.writeCodable cfg else []) := by
  obtain ⟨hst, body, ht⟩ := Swift.generate_spec U cfg false d false text st h
  refine ⟨body, ?_⟩
  rw [ht, hst]
  simp [Lang.Swift.endFile]

/-- what is written defines the name -/
theorem swift_codable_defines (cfg : Lang.Swift.Cfg) :
    s%"public struct CodableVoid: " <:+: Lang.Swift.writeCodable cfg := Swift.writeCodable_defines cfg

/-! non-vacuity: `()` three levels down in a field, in a payload, in a generic argument -/
example : Swift.unitIn {} (.vec (.hashMap (.prim .string) (.option (.prim .unit)))) = true := by decide
example : Swift.unitIn {} (.generic s%"Foo" [.vec (.prim .unit)]) = true := by decide
example : Swift.unitIn { typeMappings := [(s%"Foo", s%"Bar")] } (.generic s%"Foo" [.prim .unit]) = false := by decide

/-! ## Go: imported packages -/

/-- every package the text refers to on typeshare's account (`time` for `time.Time`,
`encoding/json` for the `json.` calls of algebraic enums) is in the import set `st` that the same
file's import block lists -/
def Go_full : Prop :=
  ∀ (U : UnicodeOps) (cfg : Lang.Go.Cfg) (d : ParsedData) (st0 : Lang.Go.Imports) (text : Str) (st : Lang.Go.Imports),
    Lang.Go.generate U cfg d st0 = .ok (text, st) →
    (∃ body, text = Lang.Go.beginFile cfg ++ Lang.Go.renderImports st ++ body) ∧ ∀ p ∈ Go.used cfg d, p ∈ st

theorem C12_go : Go_full := by
  intro U cfg d st0 text st h
  obtain ⟨h1, _, h3⟩ := Go.generate_spec U cfg d st0 text st h
  exact ⟨h3, h1⟩

/-- … and the import block names each package of the set -/
theorem go_import_block (st : Lang.Go.Imports) (p : Str) (hp : p ∈ st) :
    (s%"\"" ++ p ++ s%"\"") <:+: Lang.Go.renderImports st := Go.renderImports_lists st p hp

example : Go.timeIn {} (.option (.vec (.hashMap (.prim .string) (.prim .dateTime)))) = true := by decide
example : Go.timeIn { typeMappings := [(s%"OffsetDateTime", s%"time.Time")] } (.prim .dateTime) = false := by decide

/-! ## TypeScript: the reviver / replacer footer -/

/-- every custom-translated type (`Uint8Array`, `Date`) a field of the file is printed with has its
clause in `ReviverFunc` / `ReplacerFunc`, and the footer defining both is the end of the file -/
def TypeScript_full : Prop :=
  ∀ (U : UnicodeOps) (cfg : Lang.TypeScript.Cfg) (d : ParsedData) (imps : Option Pipeline.ScopedCrateTypes)
    (st0 : Lang.TypeScript.CustomMap) (text : Str) (st : Lang.TypeScript.CustomMap),
    Lang.TypeScript.generate U cfg d imps st0 = .ok (text, st) →
    (∃ pre, text = pre ++ Lang.TypeScript.endFile st) ∧
    ∀ t ∈ TypeScript.used cfg d, TypeScript.clauseFor st t ∈ TypeScript.clauses st ∧
      ∃ pre, Lang.TypeScript.endFile st = pre ++
        s%"export const ReviverFunc = (key: string, value: unknown): unknown => {\n    " ++
        Str.intercalate s%"\n    " ((TypeScript.clauses st).map (·.1)) ++
        s%"\n    return value;\n};\n\nexport const ReplacerFunc = (key: string, value: unknown): unknown => {\n    " ++
        Str.intercalate s%"\n    " ((TypeScript.clauses st).map (·.2)) ++ s%"\n    return value;\n};\n"

theorem C12_typescript : TypeScript_full := by
  intro U cfg d imps st0 text st h
  obtain ⟨h1, _, h3⟩ := TypeScript.generate_spec U cfg d imps st0 text st h
  refine ⟨h3, ?_⟩
  intro t ht
  exact TypeScript.endFile_provides st t (h1 t ht) (TypeScript.used_custom cfg d t ht)

example : TypeScript.fieldNeeds { typeMappings := [(s%"Vec<u8>", s%"Uint8Array")] } []
    { id := ⟨s%"a", s%"a", false⟩, ty := .vec (.prim .u8), comments := [], hasDefault := false, decorators := [] }
    = [s%"Uint8Array"] := by decide +kernel


/-! ## witnesses shared below -/

def mkField (name : Str) (ty : RustType) (hasDefault : Bool := false) : RustField :=
  { id := ⟨name, name, false⟩, ty, comments := [], hasDefault, decorators := [] }

def mkStruct (name : Str) (fields : List RustField) (gens : List Str := []) : RustStruct :=
  { id := ⟨name, name, false⟩, genericTypes := gens, fields, comments := [], decorators := {}, isRedacted := false }

def mkAlias (name : Str) (ty : RustType) (gens : List Str := []) : RustTypeAlias :=
  { id := ⟨name, name, false⟩, genericTypes := gens, ty, comments := [], decorators := {}, isRedacted := false }

def exE : Ext := { U := .ascii, parseType := fun _ => none }

/-! ## Scala: the unsigned aliases -/

/-- whenever a formatted type prints `UByte` / `UShort` / `UInt` / `ULong`, the package object of the
same file starts with the alias block -/
def Scala_full : Prop :=
  ∀ (cfg : Lang.Scala.Cfg) (d : ParsedData) (f : Lang.Scala.ScFile), Lang.Scala.fileFacts cfg d = .ok f →
    Scala.used cfg d = true → Scala.definesUnsigned f = true

def scalaCfg : Lang.Scala.Cfg := { package := s%"com.example" }

/-- **C12 for Scala** (a full theorem since the `fix:` commit 37c1b68: `uses_unsigned` descends to
any depth, under arrays, slices and generic arguments too) -/
theorem C12_scala : Scala_full := by
  intro cfg d f hf hu
  rw [Scala.fileFacts_defines cfg d f hf]
  exact Scala.used_provided cfg d hu

/-- … and the rendered file then contains the four alias definitions -/
theorem C12_scala_text (cfg : Lang.Scala.Cfg) (d : ParsedData) (f : Lang.Scala.ScFile)
    (hf : Lang.Scala.fileFacts cfg d = .ok f) (hu : Scala.used cfg d = true) :
    Scala.definesUnsigned f = true ∧ Lang.Scala.unsignedAliases <:+: Lang.Scala.renderFile f := by
  have := C12_scala cfg d f hf hu
  exact ⟨this, Scala.renderFile_defines f this⟩

/-- the scan finds every unsigned integer the formatter prints, type by type -/
theorem scala_scan_complete (cfg : Lang.Scala.Cfg) (t : RustType) (hu : Scala.unsignedIn cfg t = true) :
    Lang.Scala.usesUnsigned t = true := Scala.usesUnsigned_of_unsignedIn cfg t hu

/-- without type mappings the scan is exact (with them it may also see an unsigned integer in the
argument of a type-mapped generic, which is never printed: a spare alias block, not a missing one) -/
theorem scala_scan_exact (cfg : Lang.Scala.Cfg) (hm : cfg.typeMappings = []) (t : RustType) :
    Lang.Scala.usesUnsigned t = Scala.unsignedIn cfg t := Scala.usesUnsigned_eq_unsignedIn cfg hm t

/-- the model's `unsignedIn` is about the text: the formatted string mentions an alias name -/
theorem scala_used_mentions (cfg : Lang.Scala.Cfg) (gens : List Str) (t : RustType) (s : Str)
    (h : Lang.Scala.formatType cfg gens t = .ok s) (hu : Scala.unsignedIn cfg t = true) :
    ∃ n ∈ Scala.aliasNames, n <:+: s := Scala.formatType_mentions cfg gens t s h hu

/-- what `fileFacts` says about the alias block of a file -/
def scalaDefines (cfg : Lang.Scala.Cfg) (d : ParsedData) : Option Bool :=
  match Lang.Scala.fileFacts cfg d with
  | .ok f => some (Scala.definesUnsigned f)
  | _ => none

/-! regression examples: the witnesses of the repaired class `scala-unsigned-scan-depth`
(`struct S { a: Vec<Vec<u8>> }`, arrays, slices, `Option<Vec<_>>`, map values, generic arguments)
now use the aliases *and* get them -/
/-- `struct S { a: Vec<Vec<u8>> }` -/
def scalaWitness : ParsedData := { structs := [mkStruct s%"S" [mkField s%"a" (.vec (.vec (.prim .u8)))]] }
example : Scala.used scalaCfg scalaWitness = true ∧ scalaDefines scalaCfg scalaWitness = some true := by
  decide +kernel
example : scalaDefines scalaCfg { structs := [mkStruct s%"S" [mkField s%"a" (.array (.prim .u16) 2)]] } = some true := by
  decide +kernel
example : scalaDefines scalaCfg { aliases := [mkAlias s%"A" (.option (.vec (.prim .u32)))] } = some true := by
  decide +kernel
example : Lang.Scala.usesUnsigned (.array (.prim .u16) 2) = true ∧ Lang.Scala.usesUnsigned (.slice (.prim .u16)) = true ∧
    Lang.Scala.usesUnsigned (.option (.vec (.prim .u32))) = true ∧
    Lang.Scala.usesUnsigned (.hashMap (.prim .string) (.vec (.prim .u8))) = true ∧
    Lang.Scala.usesUnsigned (.generic s%"Foo" [.vec (.prim .u8)]) = true := by decide
-- no unsigned integer anywhere: no alias block
example : scalaDefines scalaCfg { structs := [mkStruct s%"S" [mkField s%"a" (.vec (.vec (.prim .i32)))]] } = some false := by
  decide +kernel
-- the argument of a type-mapped generic is scanned though never printed
example : Scala.unsignedIn { typeMappings := [(s%"Foo", s%"Bar")] } (.generic s%"Foo" [.prim .u8]) = false ∧
    Lang.Scala.usesUnsigned (.generic s%"Foo" [.prim .u8]) = true := by decide

/-! ## Kotlin: the serialization imports -/

/-- every `kotlinx.serialization` name the declarations of a file mention is imported by its header -/
def Kotlin_full : Prop :=
  ∀ (cfg : Lang.Kotlin.Cfg) (d : ParsedData) (items : List RustItem) (decls : List Lang.Kotlin.KtDecl),
    Pipeline.generateOrder d = some items → Lang.Kotlin.itemsFacts cfg items = .ok decls →
    ∀ n ∈ decls.flatMap Kotlin.declUses, n ∈ Kotlin.provided cfg

/-- **Known (Kotlin)**: no package is configured (`begin_file` then writes nothing, imports included)
and the file has a declaration that carries an annotation (anything but a `typealias`) -/
def Known_kotlin (cfg : Lang.Kotlin.Cfg) (decls : List Lang.Kotlin.KtDecl) : Prop :=
  cfg.package.isEmpty = true ∧ decls.flatMap Kotlin.declUses ≠ []
instance (cfg : Lang.Kotlin.Cfg) (decls : List Lang.Kotlin.KtDecl) : Decidable (Known_kotlin cfg decls) := by
  unfold Known_kotlin; infer_instance

/-- the statement holds exactly outside `Known_kotlin` -/
theorem C12_kotlin_exact (cfg : Lang.Kotlin.Cfg) (decls : List Lang.Kotlin.KtDecl) :
    (∀ n ∈ decls.flatMap Kotlin.declUses, n ∈ Kotlin.provided cfg) ↔ ¬ Known_kotlin cfg decls := by
  unfold Known_kotlin
  cases hp : cfg.package.isEmpty with
  | true =>
    simp only [Kotlin.provided, hp, if_true, List.not_mem_nil, true_and, ne_eq, Decidable.not_not]
    constructor
    · intro h
      cases hl : decls.flatMap Kotlin.declUses with
      | nil => rfl
      | cons x xs => exact absurd (h x (by simp [hl])) (by simp)
    · intro h n hn; rw [h] at hn; cases hn
  | false =>
    simp only [Bool.false_eq_true, false_and, not_false_eq_true, iff_true]
    intro n hn
    simp only [List.mem_flatMap] at hn
    obtain ⟨dc, _, hdc⟩ := hn
    simp only [Kotlin.provided, hp, Bool.false_eq_true, if_false, List.mem_cons, List.mem_nil_iff, or_false]
    exact Kotlin.declUses_sub dc n hdc

theorem C12_kotlin_partial (cfg : Lang.Kotlin.Cfg) (d : ParsedData)
    (items : List RustItem) (decls : List Lang.Kotlin.KtDecl)
    (_ : Pipeline.generateOrder d = some items) (_ : Lang.Kotlin.itemsFacts cfg items = .ok decls)
    (hk : ¬ Known_kotlin cfg decls) :
    ∀ n ∈ decls.flatMap Kotlin.declUses, n ∈ Kotlin.provided cfg := (C12_kotlin_exact cfg decls).2 hk

/-- with a package the two import lines end the header -/
theorem kotlin_header_imports (cfg : Lang.Kotlin.Cfg) (d : ParsedData) (hp : cfg.package.isEmpty = false) :
    Kotlin.importLines <:+ Lang.Kotlin.beginFile cfg d := Kotlin.beginFile_imports cfg d hp

/-- inside `Known_kotlin` the file consists of the declarations only -/
theorem known_kotlin_no_header (cfg : Lang.Kotlin.Cfg) (hk : cfg.package.isEmpty = true) (d : ParsedData)
    (imps : Option Pipeline.ScopedCrateTypes) (text : Str) (h : Lang.Kotlin.generate cfg d imps = .ok text) :
    Kotlin.provided cfg = [] ∧
    ∃ decls : List Lang.Kotlin.KtDecl,
      text = (if d.multiFile then Lang.Kotlin.writeImports cfg (imps.getD []) else []) ++
        decls.flatMap Lang.Kotlin.renderDecl := by
  have hk' : cfg.package.isEmpty = true := hk
  obtain ⟨items, decls, _, _, ht⟩ := Kotlin.generate_spec cfg d imps text h
  refine ⟨by simp [Kotlin.provided, hk'], decls, ?_⟩
  rw [ht, Kotlin.beginFile_empty cfg d hk']; simp

/-- `struct S { a: u8 }` with the default (empty) package -/
def kotlinItem : RustItem := .struct (mkStruct s%"S" [mkField s%"a" (.prim .u8)])
def kotlinWitness : ParsedData := { structs := [mkStruct s%"S" [mkField s%"a" (.prim .u8)]] }

def kotlinUses (cfg : Lang.Kotlin.Cfg) (items : List RustItem) : Option (List Str) :=
  match Lang.Kotlin.itemsFacts cfg items with
  | .ok decls => some (decls.flatMap Kotlin.declUses)
  | _ => none

theorem kotlin_not_full : ¬ Kotlin_full := by
  intro h
  have ho : Pipeline.generateOrder kotlinWitness = some [kotlinItem] :=
    topsort_single kotlinItem (by decide +kernel)
  have hu : kotlinUses {} [kotlinItem] = some [Kotlin.kSerializable] := by decide +kernel
  unfold kotlinUses at hu
  cases hf : Lang.Kotlin.itemsFacts {} [kotlinItem] with
  | ok decls =>
    rw [hf] at hu
    simp only [Option.some.injEq] at hu
    have := h {} kotlinWitness _ decls ho hf Kotlin.kSerializable (by rw [hu]; simp)
    simp [Kotlin.provided] at this
  | err e => rw [hf] at hu; cases hu
  | panic e => rw [hf] at hu; cases hu

example : Known_kotlin {} [.object [] s%"S"] := by decide
example : ¬ Known_kotlin {} [.typeAlias [] s%"A" [] s%"UByte"] := by decide
example : ¬ Known_kotlin { package := s%"com.example" } [.object [] s%"S"] := by decide


/-! ## Python: imports, `TypeVar`s, custom (de)serialiser functions -/

/-- every name the text generated for `d` uses on typeshare's account (`C12L.Python.used`: imports
from `typing` / `pydantic` / `enum` / `datetime`, `TypeVar`s, translation functions) is provided by
the printer state `st` that `write_all_imports` and the custom-function loop write before the body -/
def Python_full : Prop :=
  ∀ (E : Ext) (cfg : Lang.Python.Cfg) (d : ParsedData) (st0 : Lang.Python.St) (text : Str) (st : Lang.Python.St),
    Lang.Python.generate E cfg d st0 = .ok (text, st) →
    (∃ body, text = Lang.Python.beginFile cfg ++ Lang.Python.writeAllImports st ++ Lang.Python.writeCustomFns st ++ body) ∧
    ∀ n ∈ Python.used E cfg d st, Python.Provides st n

/-- **C12 for Python** (a full theorem since the `fix:` commits 0d6268d and bfc37c3): every import,
every `TypeVar` and every translation function the text of a file uses — at any depth and position,
for every type mapping, whatever printer state the earlier files of the run left behind — is in
the state the header and the function block of the same file are written from -/
theorem C12_python : Python_full := by
  intro E cfg d st0 text st h
  obtain ⟨_, hused, hbody⟩ := Python.generate_spec E cfg d st0 text st h
  exact ⟨hbody, hused⟩

/-- … and the printer state only grows along a run -/
theorem C12_python_mono (E : Ext) (cfg : Lang.Python.Cfg) (d : ParsedData) (st0 : Lang.Python.St) (text : Str)
    (st : Lang.Python.St) (h : Lang.Python.generate E cfg d st0 = .ok (text, st)) : Python.Mono st0 st :=
  (Python.generate_spec E cfg d st0 text st h).1

/-- the two repaired classes in terms of the names used:
* `py-default-custom-fns` — a custom-translated field (`bytes` / `datetime`) uses its translation
  functions whether or not it is a `#[serde(default)]` non-`Option` field (`Python.nod`);
* `py-mapped-datetime-import` — whenever `datetime` is registered for custom translation the name
  `datetime` (inside the functions' text) is used.
Both are members of `Python.used`, so `C12_python` covers them. -/
theorem python_repaired_kinds (E : Ext) (cfg : Lang.Python.Cfg) :
    (∀ gens (f : RustField) t, Python.customTy cfg gens f = some t → Python.Need.fns t ∈ Python.fieldSafe E cfg gens f) ∧
    (∀ d (st : Lang.Python.St), s%"datetime" ∈ st.customJson → Python.impDatetime ∈ Python.used E cfg d st) := by
  constructor
  · intro gens f t h
    simp [Python.fieldSafe, h]
  · intro d st h
    simp [Python.used, Python.fnsNeeds, h]

/-- the translation functions of a registered type are written before the body -/
theorem python_fns_written (st : Lang.Python.St) (t : Str) (c : Lang.Python.CustomFns)
    (ht : Python.Provides st (.fns t)) (hc : Lang.Python.jsonTranslation t = some c) :
    c.serializationContent <:+: Lang.Python.writeCustomFns st ∧
    c.deserializationContent <:+: Lang.Python.writeCustomFns st := Python.writeCustomFns_defines st t c ht hc

/-- an import of the state is a line of the header, a type variable is declared there -/
theorem python_header_written (st : Lang.Python.St) :
    (∀ m i, Python.Provides st (.imp m i) → ∃ ids, i ∈ ids ∧
      (s%"from " ++ m ++ s%" import " ++ Str.intercalate s%", " ids) <:+: Lang.Python.writeAllImports st) ∧
    (∀ n, Python.Provides st (.typeVar n) →
      (n ++ s%" = TypeVar(\"" ++ n ++ s%"\")") <:+: Lang.Python.writeAllImports st) :=
  ⟨Python.writeAllImports_import st, Python.writeAllImports_typeVar st⟩

/-- the final printer state of a list of items -/
def pyFinal (E : Ext) (cfg : Lang.Python.Cfg) (items : List RustItem) : Option Lang.Python.St :=
  match Lang.Python.writeItems E cfg items {} with
  | .ok (_, st) => some st
  | _ => none

/-- `struct S { #[serde(default)] t: OffsetDateTime }`, the old witness of `py-default-custom-fns`:
`parse_rfc3339` / `serialize_datetime_data` are named in the `Annotated[..]` of the field; they used
to be registered (and so not written) for `Optional[datetime]` -/
def pyDefaultItem : RustItem := .struct (mkStruct s%"S" [mkField s%"t" (.prim .dateTime) true])
def pyDefaultWitness : ParsedData := { structs := [mkStruct s%"S" [mkField s%"t" (.prim .dateTime) true]] }

/-- `C12_python` is not vacuous on the old witness: the run succeeds, `datetime` is registered and
imported, and everything the file uses is provided -/
example : ∃ text st, Lang.Python.generate exE {} pyDefaultWitness {} = .ok (text, st) ∧
    st.customJson = [s%"datetime"] ∧ Python.Provides st Python.impDatetime ∧
    ∀ n ∈ Python.used exE {} pyDefaultWitness st, Python.Provides st n := by
  have ho : Pipeline.generateOrder pyDefaultWitness = some [pyDefaultItem] :=
    topsort_single pyDefaultItem (by decide +kernel)
  have hw : (pyFinal exE {} [pyDefaultItem]).map
      (fun st => (st.customJson, decide (Python.Provides (Lang.Python.addDatetimeImport st) Python.impDatetime))) =
      some ([s%"datetime"], true) := by decide +kernel
  unfold pyFinal at hw
  cases hwi : Lang.Python.writeItems exE {} [pyDefaultItem] {} with
  | ok r =>
    obtain ⟨body, st⟩ := r
    rw [hwi] at hw
    simp only [Option.map_some, Option.some.injEq, Prod.mk.injEq, decide_eq_true_eq] at hw
    have hg : Lang.Python.generate exE {} pyDefaultWitness {} =
        .ok (Lang.Python.beginFile {} ++ Lang.Python.writeAllImports (Lang.Python.addDatetimeImport st) ++
          Lang.Python.writeCustomFns (Lang.Python.addDatetimeImport st) ++ body, Lang.Python.addDatetimeImport st) := by
      simp [Lang.Python.generate, ho, hwi]
    exact ⟨_, _, hg, by rw [Python.addDatetimeImport_customJson]; exact hw.1, hw.2, (C12_python _ _ _ _ _ _ hg).2⟩
  | err e => rw [hwi] at hw; cases hw
  | panic e => rw [hwi] at hw; cases hw

/-! regression example: the witness of the repaired class `py-alias-typevar`, `type G<T> = Vec<T>` —
`T` is used by the alias, and now declared (with `TypeVar` imported) -/
def pyAliasItem : RustItem := .alias (mkAlias s%"G" (.vec (.simple s%"T")) [s%"T"])
example : Python.itemSafe exE {} pyAliasItem =
    [.typeVar s%"T", Python.impTypeVar, Python.impList, .typeVar s%"T"] := by
  decide +kernel
example : (pyFinal exE {} [pyAliasItem]).map (fun st => (st.typeVars,
    decide (Python.Provides st (.typeVar s%"T") ∧ Python.Provides st Python.impTypeVar))) = some ([s%"T"], true) := by
  decide +kernel
example : (match Lang.Python.writeItems exE {} [pyAliasItem] {} with | .ok (t, _) => some t | _ => none) =
    some s%"G = List[T]\n\n" := by decide +kernel

/-! regression examples: the witnesses of the repaired classes `py-default-custom-fns` and
`py-mapped-datetime-import` -/
-- `struct S { #[serde(default)] t: OffsetDateTime }`: `datetime` is registered (was `Optional[datetime]`), so the
-- functions the field names are provided
theorem repaired_py_default_custom_fns :
    (pyFinal exE {} [pyDefaultItem]).map
      (fun st => (decide (Python.Provides st (.fns s%"datetime")), st.customJson)) = some (true, [s%"datetime"]) ∧
    Python.fieldSafe exE {} [] (mkField s%"t" (.prim .dateTime) true) =
      [Python.impDatetime, Python.impOptional, Python.impField, Python.impAnnotated, Python.impBefore, Python.impPlain,
       .fns s%"datetime"] := by decide +kernel
-- the same with a mapped `bytes` field: `#[serde(default)] t: Foo`, `Foo -> bytes`
example : (pyFinal exE { typeMappings := [(s%"Foo", s%"bytes")] }
      [.struct (mkStruct s%"S" [mkField s%"t" (.simple s%"Foo") true])]).map
    (fun st => (decide (Python.Provides st (.fns s%"bytes")), st.customJson)) = some (true, [s%"bytes"]) := by decide +kernel
-- … and the field line still wraps the type: `Annotated[Optional[datetime], BeforeValidator(parse_rfc3339), …]`
example : (match Lang.Python.fieldFacts exE {} [] (mkField s%"t" (.prim .dateTime) true) {} with
    | .ok (pf, _) => some pf.ty | _ => none) =
    some s%"Annotated[Optional[datetime], BeforeValidator(parse_rfc3339), PlainSerializer(serialize_datetime_data)]" := by
  decide +kernel
-- without the default nothing has changed
example : (pyFinal exE {} [.struct (mkStruct s%"S" [mkField s%"t" (.prim .dateTime)])]).map
    (fun st => decide (Python.Provides st (.fns s%"datetime") ∧ Python.Provides st Python.impDatetime)) =
    some true := by decide +kernel
-- `struct S { t: Foo }` with the mapping `Foo -> datetime`: after the items the functions are registered and `datetime`
-- is not imported; `generate_types` adds the import before the header is written (was missing)
theorem repaired_py_mapped_datetime_import :
    (pyFinal exE { typeMappings := [(s%"Foo", s%"datetime")] }
      [.struct (mkStruct s%"S" [mkField s%"t" (.simple s%"Foo")])]).map
    (fun st => (decide (Python.Provides st (.fns s%"datetime")), decide (Python.Provides st Python.impDatetime),
      decide (Python.Provides (Lang.Python.addDatetimeImport st) Python.impDatetime))) =
    some (true, false, true) := by decide +kernel
-- a mapped `Vec<u8>` with `#[serde(default)]` is fine: `format_special_type` registers `bytes` itself
example : (pyFinal exE { typeMappings := [(s%"Vec<u8>", s%"bytes")] }
      [.struct (mkStruct s%"S" [mkField s%"t" (.vec (.prim .u8)) true])]).map
    (fun st => decide (Python.Provides st (.fns s%"bytes"))) = some true := by decide +kernel
-- names at depth: `HashMap<String, Vec<Option<OffsetDateTime>>>` in an alias
example : Python.typeNeeds {} [] (.hashMap (.prim .string) (.vec (.option (.prim .dateTime)))) =
    [Python.impDict, Python.impList, Python.impOptional, Python.impDatetime] := by decide +kernel

/-! ## the property -/

/-- **C12 at full strength**: for every back end, every name typeshare brings into an output file
is defined or imported by the same output (Swift in multi-file mode: by the shared `Codable.swift`) -/
def C12_full : Prop :=
  Swift_full ∧ Scala_full ∧ Python_full ∧ Go_full ∧ TypeScript_full ∧ Kotlin_full

theorem C12_not_full : ¬ C12_full := fun h => kotlin_not_full h.2.2.2.2.2

/-- five of the six back ends satisfy the statement in full -/
theorem C12_all_but_kotlin : Swift_full ∧ Scala_full ∧ Python_full ∧ Go_full ∧ TypeScript_full :=
  ⟨C12_swift, C12_scala, C12_python, C12_go, C12_typescript⟩

/-- `C12_full` fails for Kotlin and for nothing else -/
theorem C12_full_iff_kotlin : C12_full ↔ Kotlin_full :=
  ⟨fun h => h.2.2.2.2.2, fun h => ⟨C12_swift, C12_scala, C12_python, C12_go, C12_typescript, h⟩⟩

/-- **C12 outside the known class**: Swift, Go, TypeScript, Scala and Python unconditionally; Kotlin
for every input that is not in `Known_kotlin` (no package configured) -/
theorem C12_partial :
    Swift_full ∧ Go_full ∧ TypeScript_full ∧ Scala_full ∧ Python_full ∧
    (∀ (cfg : Lang.Kotlin.Cfg) (d : ParsedData) (items : List RustItem) (decls : List Lang.Kotlin.KtDecl),
      Pipeline.generateOrder d = some items → Lang.Kotlin.itemsFacts cfg items = .ok decls →
      ¬ Known_kotlin cfg decls → ∀ n ∈ decls.flatMap Kotlin.declUses, n ∈ Kotlin.provided cfg) :=
  ⟨C12_swift, C12_go, C12_typescript, C12_scala, C12_python,
   fun cfg d items decls ho hf hk => C12_kotlin_partial cfg d items decls ho hf hk⟩

/-- `C12_full` fails exactly on the Kotlin inputs of `Known_kotlin`: for every configuration and
declaration list, the Kotlin clause holds iff the input is outside the class -/
theorem C12_failures_are_kotlin_without_package (cfg : Lang.Kotlin.Cfg) (decls : List Lang.Kotlin.KtDecl) :
    (¬ ∀ n ∈ decls.flatMap Kotlin.declUses, n ∈ Kotlin.provided cfg) ↔ Known_kotlin cfg decls := by
  rw [C12_kotlin_exact]; exact Decidable.not_not

end TsV.C12
