import TsV.Model.Lang.Common
/-!
# Model of `core/src/language/python.rs`  (stub: not modelled yet)
-/
namespace TsV.Lang.Python
open TsV TsV.Lang

structure Cfg where
  typeMappings : List (Str × Str) := []
  versionHeader : Option Str := none     -- `some version` when the header is written

/-- all output files of one run: `jobs` are the crates in map order with their reconciled data and
(in multi-file mode) the imports `used_imports` computed.  Returns (crate ↦ text) in the same order
(plus, for Swift in multi-file mode, what `post_generation` writes, under the key
`<post>/<file name>`). -/
def generateAll (E : Ext) (cfg : Cfg) (multiFile : Bool)
    (jobs : List (Str × ParsedData × Option Pipeline.ScopedCrateTypes)) : Outcome (List (Str × Str)) :=
  .err (.formatError s%"unmodelled-language")

end TsV.Lang.Python
