import TsV.Props.C01
/-!
# C16, carried to the generated text — the key every back end binds is serde's `rename_all` form

`TsV.C16.C16_field` is a statement about the parser (`rename_all_to_case` against the port of
serde_derive's `case.rs`).  This module carries it through the six back ends with `TsV.C01.C01`: for each of
serde's eight rules, the JSON key that the *generated declaration* binds to a field of a struct, or to a field of
a struct variant, is `Serde.applyField rule <identifier>` — whenever serde has a key at all (`C16.Agree`: under
`camelCase` serde_derive itself panics on an empty Pascal form).

* `RuleKey rule f k`: the field carries no explicit `serde(rename)` and `k` agrees with
  `Serde.applyField rule` of the un-raw'd identifier.
* `C16_Backends_struct`: the declaration generated for an annotated struct whose `serde(rename_all = r)` names
  one of the eight rules binds every kept field without an own `serde(rename)` to its `RuleKey`.
* `C16_Backends_variant`: the same for the helper declaration of every struct variant, with the *variant's*
  `rename_all`.
* `C16_Backends_unknown`: a `rename_all` string that is no rule name leaves the bound keys at the identifiers.

The binding semantics (`C01.structKeys` / `C01.enumKeys`: which key a generated declaration binds) and the scope
(`C01.InScope`: conventional identifier, key alphabet; Scala: dash-free) are C01's.
-/
namespace TsV.C16_Backends
open TsV TsV.Str TsV.Syn TsV.Parser TsV.Serde TsV.Lang TsV.Outcome TsV.C01

/-- the key is serde's `rename_all` form of the field's identifier -/
def RuleKey (rule : Rule) (f : Field) (k : Str) : Prop :=
  C16.Agree (.ok k) (applyField rule (stripRaw (f.ident.getD [])))

theorem serdeKey_rule (E : Ext) (r : Str) (rule : Rule) (f : Field) (k : Str)
    (hrule : Rule.ofStr r = some rule) (hn : serdeRename E f.attrs = none) (h : SerdeKey E (some r) f k) :
    RuleKey rule f k := by
  unfold SerdeKey fieldKeyOf fieldKey at h
  simpa [hn, hrule, RuleKey] using h

theorem serdeKey_unknown (E : Ext) (ra : Option Str) (f : Field) (k : Str)
    (hrule : ra.bind Rule.ofStr = none) (hn : serdeRename E f.attrs = none) (h : SerdeKey E ra f k) :
    k = stripRaw (f.ident.getD []) := by
  unfold SerdeKey fieldKeyOf fieldKey at h
  simp only [hn, hrule] at h
  have := h _ rfl
  simpa using this

/-- **structs, all six back ends, all eight rules** -/
theorem C16_Backends_struct (E : Ext) (hU : E.U.AsciiCorrect) (L : TsV.Lang) (ctx : Ctx L) (targetOs : List Str)
    (attrs : List Attr) (ident : Str) (gens : List GenericParam) (fs : List Field) (rs rs' : RustStruct)
    (ks : List Str) (r : Str) (rule : Rule)
    (hra : serdeRenameAll E attrs = some r) (hrule : Rule.ofStr r = some rule)
    (hparse : parseStruct E targetOs attrs ident gens (.named fs) = .ok (.struct rs))
    (hids : fieldIds rs'.fields = fieldIds rs.fields)
    (hscope : ∀ f ∈ kept targetOs fs, InScope E L (some r) f)
    (hd : Distinct L rs'.fields)
    (hkeys : structKeys E L ctx rs' = .ok ks) :
    Forall₂ (fun f k => serdeRename E f.attrs = none → RuleKey rule f k) (kept targetOs fs) ks := by
  have h := (C01 E hU L ctx targetOs).1 attrs ident gens fs rs rs' ks hparse hids (by rw [hra]; exact hscope) hd hkeys
  rw [hra] at h
  exact forall₂_imp (fun f k hk hn => serdeKey_rule E r rule f k hrule hn hk) h

/-- **struct variants**: the rule is the variant's own `rename_all` -/
theorem C16_Backends_variant (E : Ext) (hU : E.U.AsciiCorrect) (L : TsV.Lang) (ctx : Ctx L) (targetOs : List Str)
    (attrs : List Attr) (ident : Str) (gens : List GenericParam) (variants : List Variant) (e e' : RustEnum)
    (kss : List (List Str))
    (hparse : parseEnum E targetOs attrs ident gens variants = .ok (.enum e))
    (hids : (structVariants e').map (fun p => fieldIds p.2) = (structVariants e).map (fun p => fieldIds p.2))
    (hscope : ∀ v ∈ variants.filter (fun v => !isSkipped v.attrs targetOs), ∀ fs, v.fields = .named fs →
      ∀ f ∈ kept targetOs fs, InScope E L (serdeRenameAll E v.attrs) f)
    (hd : ∀ p ∈ structVariants e', Distinct L p.2)
    (hkeys : enumKeys E L ctx e' = .ok kss) :
    Forall₂ (fun v ks => ∃ fs, v.fields = .named fs ∧
        ∀ r rule, serdeRenameAll E v.attrs = some r → Rule.ofStr r = some rule →
          Forall₂ (fun f k => serdeRename E f.attrs = none → RuleKey rule f k) (kept targetOs fs) ks)
      ((variants.filter fun v => !isSkipped v.attrs targetOs).filter namedFields) kss := by
  have h := (C01 E hU L ctx targetOs).2 attrs ident gens variants e e' kss hparse hids hscope hd hkeys
  refine forall₂_imp ?_ h
  rintro v ks ⟨fs, hfs, hk⟩
  refine ⟨fs, hfs, fun r rule hra hrule => ?_⟩
  rw [hra] at hk
  exact forall₂_imp (fun f k hk hn => serdeKey_rule E r rule f k hrule hn hk) hk

/-- **an unknown rule (or none) leaves the bound keys at the identifiers** -/
theorem C16_Backends_unknown (E : Ext) (hU : E.U.AsciiCorrect) (L : TsV.Lang) (ctx : Ctx L) (targetOs : List Str)
    (attrs : List Attr) (ident : Str) (gens : List GenericParam) (fs : List Field) (rs rs' : RustStruct)
    (ks : List Str)
    (hrule : (serdeRenameAll E attrs).bind Rule.ofStr = none)
    (hparse : parseStruct E targetOs attrs ident gens (.named fs) = .ok (.struct rs))
    (hids : fieldIds rs'.fields = fieldIds rs.fields)
    (hscope : ∀ f ∈ kept targetOs fs, InScope E L (serdeRenameAll E attrs) f)
    (hd : Distinct L rs'.fields)
    (hkeys : structKeys E L ctx rs' = .ok ks) :
    Forall₂ (fun f k => serdeRename E f.attrs = none → k = stripRaw (f.ident.getD [])) (kept targetOs fs) ks := by
  have h := (C01 E hU L ctx targetOs).1 attrs ident gens fs rs rs' ks hparse hids hscope hd hkeys
  exact forall₂_imp (fun f k hk hn => serdeKey_unknown E _ f k hrule hn hk) h

/-! ## non-vacuity: the eight rules on `struct S { user_id, r#type }`, the keys the Kotlin and Swift declarations bind -/

def E0 : Ext := { U := .ascii, parseType := fun _ => none }
def attrsFor (r : Str) : List Attr :=
  [⟨.path [s%"typeshare"]⟩, ⟨.list [s%"serde"] true [.nameValue [s%"rename_all"] (some (.str r))]⟩]
def exFields : List Field :=
  [⟨[], some s%"user_id", .path [] s%"u32" []⟩, ⟨[], some s%"r#type", .path [] s%"String" []⟩]
def structFor (r : Str) : RustStruct :=
  match parseStruct E0 [] (attrsFor r) s%"S" [] (.named exFields) with
  | .ok (.struct rs) => rs
  | _ => default

def rules : List (Str × Rule) :=
  [(s%"lowercase", .lower), (s%"UPPERCASE", .upper), (s%"PascalCase", .pascal), (s%"camelCase", .camel),
   (s%"snake_case", .snake), (s%"SCREAMING_SNAKE_CASE", .screamingSnake), (s%"kebab-case", .kebab),
   (s%"SCREAMING-KEBAB-CASE", .screamingKebab)]

example : rules.all (fun p => Rule.ofStr p.1 == some p.2) = true := by decide +kernel

/-- serde's keys for the two fields, rule by rule … -/
example : rules.map (fun p => exFields.map fun f => applyField p.2 (stripRaw (f.ident.getD []))) =
    [[.ok s%"user_id", .ok s%"type"], [.ok s%"USER_ID", .ok s%"TYPE"], [.ok s%"UserId", .ok s%"Type"],
     [.ok s%"userId", .ok s%"type"], [.ok s%"user_id", .ok s%"type"], [.ok s%"USER_ID", .ok s%"TYPE"],
     [.ok s%"user-id", .ok s%"type"], [.ok s%"USER-ID", .ok s%"TYPE"]] := by decide +kernel

/-- … and the keys the generated Kotlin / Swift / Go declarations bind -/
example : rules.map (fun p => structKeys E0 .kotlin {} (structFor p.1)) =
    [.ok [s%"user_id", s%"type"], .ok [s%"USER_ID", s%"TYPE"], .ok [s%"UserId", s%"Type"],
     .ok [s%"userId", s%"type"], .ok [s%"user_id", s%"type"], .ok [s%"USER_ID", s%"TYPE"],
     .ok [s%"user-id", s%"type"], .ok [s%"USER-ID", s%"TYPE"]] := by decide +kernel
example : rules.map (fun p => structKeys E0 .swift ({}, false) (structFor p.1)) =
    [.ok [s%"user_id", s%"type"], .ok [s%"USER_ID", s%"TYPE"], .ok [s%"UserId", s%"Type"],
     .ok [s%"userId", s%"type"], .ok [s%"user_id", s%"type"], .ok [s%"USER_ID", s%"TYPE"],
     .ok [s%"user-id", s%"type"], .ok [s%"USER-ID", s%"TYPE"]] := by decide +kernel
example : rules.map (fun p => structKeys E0 .go ({}, []) (structFor p.1)) =
    [.ok [s%"user_id", s%"type"], .ok [s%"USER_ID", s%"TYPE"], .ok [s%"UserId", s%"Type"],
     .ok [s%"userId", s%"type"], .ok [s%"user_id", s%"type"], .ok [s%"USER_ID", s%"TYPE"],
     .ok [s%"user-id", s%"type"], .ok [s%"USER-ID", s%"TYPE"]] := by decide +kernel

/-- every hypothesis of `C16_Backends_struct` is met for `kebab-case` and Swift (a dashed key: `CodingKeys`) -/
example : Forall₂ (fun f k => serdeRename E0 f.attrs = none → RuleKey .kebab f k) (kept [] exFields)
    [s%"user-id", s%"type"] :=
  C16_Backends_struct E0 UnicodeOps.ascii_correct .swift ({}, false) [] (attrsFor s%"kebab-case") s%"S" [] exFields
    (structFor s%"kebab-case") (structFor s%"kebab-case") _ s%"kebab-case" .kebab (by decide +kernel) (by decide +kernel)
    (by rfl) rfl (inScopeB_all _ _ _ _ (by decide +kernel)) (by decide +kernel) (by decide +kernel)

end TsV.C16_Backends
